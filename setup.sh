#!/bin/bash
# Build the overlay venv used by every check (offline; wheels from /opt/veriftools/wheels).
# Idempotent and safe to call concurrently (flock).
set -e
HERE="$(cd "$(dirname "$0")" && pwd)"
VENV="$HERE/.venv"
LOCK="$HERE/.venv.lock"
exec 9>"$LOCK"
flock 9
if [ -x "$VENV/bin/python" ] && "$VENV/bin/python" -c "import crosshair, z3, jsonschema" >/dev/null 2>&1; then
    exit 0
fi
rm -rf "$VENV"
/venv/bin/python -m venv "$VENV"
SP="$("$VENV/bin/python" -c 'import sysconfig; print(sysconfig.get_paths()["purelib"])')"
printf '/venv/lib/python3.12/site-packages\n/repo\n' > "$SP/_overlay.pth"
PIP_NO_INDEX=1 "$VENV/bin/pip" install -q --no-index --find-links /opt/veriftools/wheels \
    crosshair-tool z3-solver cvc5 jsonschema >/dev/null
"$VENV/bin/python" -c "import crosshair, z3, jsonschema, xonsh; print('venv ok', crosshair.__version__, z3.get_version_string())"
