"""Run one obligation partition under CrossHair (symbolic execution + z3).

Invoked as a subprocess by vf.main:
    python -m vf.worker <module> <obligation> <partition-index> <tier> <known-ids,comma>
Prints one JSON document on the last stdout line.
"""

from __future__ import annotations

import ast
import collections
import importlib
import importlib.util
import inspect
import json
import os
import shutil
import sys
import tempfile
import time
import traceback
from typing import Any, Dict, List, Optional

from vf import api
from vf.api import ModelGap, Obligation, Skip

REPO = os.environ.get("VERIF_REPO", "/repo")

_WRAP_SRC = '''\
import typing
from typing import *

def ob({plist}) -> bool:
    """
{pre}
    post: _
    """
    return _call({names})
'''


class _SolverStats:
    queries = 0
    seconds = 0.0


def _install_solver_counter():
    import z3

    orig = z3.Solver.check

    def check(self, *a, **kw):
        t = time.perf_counter()
        try:
            return orig(self, *a, **kw)
        finally:
            _SolverStats.queries += 1
            _SolverStats.seconds += time.perf_counter() - t

    z3.Solver.check = check


def _install_opaque_number_format():
    """Opt-in (harness attribute OPAQUE_NUMBER_FORMAT): f-string rendering of a
    *symbolic number* yields a constant placeholder instead of realising the
    number (which would enumerate its values path by path).  Only for harnesses
    where rendered numbers flow into messages, never into decisions."""
    import crosshair.opcode_intercept as oi
    from crosshair.libimpl.builtinslib import SymbolicNumberAble
    from crosshair.tracers import NoTracing

    F = oi.FormatStashingValue
    o_fmt, o_str = F.__format__, F.__str__

    def _is_sym(v):
        with NoTracing():
            return isinstance(v, SymbolicNumberAble)

    def __format__(self, fmt):
        if _is_sym(self.value):
            self.formatted = "<num>"
            return ""
        return o_fmt(self, fmt)

    def __str__(self):
        if _is_sym(self.value):
            self.formatted = "<num>"
            return ""
        return o_str(self)

    F.__format__ = __format__
    F.__str__ = __str__


def _make_wrapper(ob: Obligation, part: Dict[str, Any], tmpdir: str, tag: str, call):
    sig = inspect.signature(ob.fn)
    params = [p for n, p in sig.parameters.items() if n not in part]
    plist = ", ".join(
        f"{p.name}: {inspect.formatannotation(p.annotation)}" for p in params
    )
    names = ", ".join(f"{p.name}={p.name}" for p in params)
    pre = "\n".join("    pre: " + p for p in ob.pre)
    src = _WRAP_SRC.format(plist=plist, names=names, pre=pre)
    modname = f"vfob_{tag}"
    path = os.path.join(tmpdir, modname + ".py")
    with open(path, "w") as f:
        f.write(src)
    spec = importlib.util.spec_from_file_location(modname, path)
    mod = importlib.util.module_from_spec(spec)
    sys.modules[modname] = mod
    spec.loader.exec_module(mod)
    mod._call = call
    mod.__dict__.update(part)
    return mod.ob, [p.name for p in params]


def _parse_call(msg: str, argnames: List[str]) -> Optional[Dict[str, Any]]:
    key = "calling ob("
    i = msg.find(key)
    if i < 0:
        return None
    start = i + len("calling ")
    node = None
    for j in range(start, len(msg)):
        if msg[j] != ")":
            continue
        try:
            cand = ast.parse(msg[start : j + 1], mode="eval").body
        except SyntaxError:
            continue
        if isinstance(cand, ast.Call):
            node = cand
            break
    if node is None:
        return None
    ns = {"float": float, "inf": float("inf"), "nan": float("nan")}

    def ev(n):
        try:
            return ast.literal_eval(n)
        except Exception:
            return eval(compile(ast.Expression(n), "<cx>", "eval"), ns)  # noqa: S307

    out: Dict[str, Any] = {}
    for name, a in zip(argnames, node.args):
        out[name] = ev(a)
    for kw in node.keywords:
        out[kw.arg] = ev(kw.value)
    return out


def _analyze(fn, timeout: float, path_timeout: Optional[float]):
    from crosshair.core_and_libs import analyze_function, run_checkables
    from crosshair.options import DEFAULT_OPTIONS, AnalysisKind, AnalysisOptionSet

    kw = dict(
        analysis_kind=[AnalysisKind.PEP316],
        per_condition_timeout=timeout,
        report_all=True,
        max_uninteresting_iterations=sys.maxsize,
    )
    if path_timeout:
        kw["per_path_timeout"] = path_timeout
    o = DEFAULT_OPTIONS.overlay(AnalysisOptionSet(**kw))
    o.stats = collections.Counter()
    q0, s0 = _SolverStats.queries, _SolverStats.seconds
    t0 = time.time()
    checkables = analyze_function(fn, o)
    if not checkables:
        return dict(verdict="error", detail="no checkable conditions", paths=0,
                    queries=0, solver_s=0.0, wall_s=0.0, message="")
    msgs = list(run_checkables(checkables))
    wall = time.time() - t0
    states = [m.state.name for m in msgs]
    verdict = "unknown"
    message = ""
    tb = ""
    for m in msgs:
        if m.state.name in ("POST_FAIL", "EXEC_ERR", "POST_ERR"):
            verdict = "refuted"
            message = m.message
            tb = m.traceback or ""
            break
    else:
        if states and all(s == "CONFIRMED" for s in states):
            verdict = "confirmed"
        elif any(s == "PRE_UNSAT" for s in states):
            verdict = "pre_unsat"
        elif any(s in ("SYNTAX_ERR", "IMPORT_ERR") for s in states):
            verdict = "error"
            message = "; ".join(m.message for m in msgs)
        else:
            verdict = "unknown"
            message = "; ".join(m.message for m in msgs)
    return dict(
        verdict=verdict,
        states=states,
        message=message,
        traceback=tb[-1500:],
        paths=int(o.stats.get("num_paths", 0)),
        stats={k: int(v) for k, v in o.stats.items()},
        queries=_SolverStats.queries - q0,
        solver_s=round(_SolverStats.seconds - s0, 3),
        wall_s=round(wall, 3),
    )


def _gap_aware(analyze, fn, timeout, path_timeout):
    """A run in which some path hit a model gap proves nothing about that path:
    'confirmed' (and a vacuous twin) is downgraded to 'unknown'."""
    n0 = len(api.GAPS)
    r = analyze(fn, timeout, path_timeout)
    gaps = sorted(set(api.GAPS[n0:]))
    if gaps:
        r["gaps"] = gaps
        if r["verdict"] in ("confirmed", "pre_unsat", "unknown"):
            r["verdict"] = "unknown"
            r["message"] = "model gap: " + "; ".join(gaps[:4])
    return r


def _trace_functions(callable_, repo_prefix: str) -> List[str]:
    seen = set()

    def tracer(frame, event, arg):
        if event == "call":
            co = frame.f_code
            fnm = co.co_filename
            if fnm.startswith(repo_prefix):
                seen.add(f"{os.path.relpath(fnm, repo_prefix)}:{co.co_qualname}")
        return None

    sys.settrace(tracer)
    try:
        callable_()
    except BaseException:
        pass
    finally:
        sys.settrace(None)
    return sorted(seen)


def _raised_in_harness(e: BaseException) -> bool:
    tb = e.__traceback__
    last = None
    while tb is not None:
        last = tb.tb_frame.f_code.co_filename
        tb = tb.tb_next
    here = os.path.dirname(os.path.dirname(os.path.abspath(__file__)))
    return bool(last) and os.path.abspath(last).startswith(os.path.join(here, "harness") + os.sep)


def concrete_run(ob: Obligation, part: Dict[str, Any], args: Dict[str, Any]):
    """Level-1 replay: the harness body in plain Python (no tracer)."""
    try:
        r = ob.fn(**part, **args)
    except Skip:
        return "skip", None
    except ModelGap as e:
        return "model-gap", str(e)
    except Exception as e:  # noqa: BLE001
        if isinstance(e, (AttributeError, ImportError, NameError)) and _raised_in_harness(e):
            # the harness itself refers to a name of xonsh that is not there (e.g. a private helper was renamed):
            # the harness is out of date - nothing is known about the property
            return "harness-outdated", f"{type(e).__name__}: {e}"
        return "violation", f"exception: {type(e).__name__}: {e}"
    if r is None:
        return "holds", None
    return "violation", str(r)


def run(module: str, obname: str, part_idx: int, tier: str, known_ids: List[str]):
    t_start = time.time()
    mod = importlib.import_module(module)
    ob: Obligation = next(o for o in mod.OBLIGATIONS if o.name == obname)
    result: Dict[str, Any] = dict(
        module=module, obligation=obname, part_index=part_idx, tier=tier
    )
    if ob.direct is not None:
        r = ob.direct(tier)
        result.update(kind="direct", part={}, runs={"main": r})
        result["wall_s"] = round(time.time() - t_start, 3)
        return result
    part = ob.partitions(tier)[part_idx]
    result["part"] = part
    result["kind"] = "crosshair"
    if ob.prepare is not None:
        ob.prepare(tier, part)
    _install_solver_counter()
    if getattr(mod, "OPAQUE_NUMBER_FORMAT", False):
        _install_opaque_number_format()
    tmpdir = tempfile.mkdtemp(prefix="vfob_")
    timeout = ob.tmo(tier)
    active = [k for k in known_ids if k in ob.regions and ob.region_parts.get(k, lambda p: True)(part)]
    runs: Dict[str, Any] = {}
    try:
        # ---------------- reachability twin ----------------
        def call_twin(**kw):
            try:
                ob.fn(**part, **kw)
            except (Skip, ModelGap):
                return True
            return False

        fn, argnames = _make_wrapper(ob, part, tmpdir, "twin", call_twin)
        tw = _gap_aware(_analyze, fn, min(timeout, 60.0), ob.path_timeout)
        witness = _parse_call(tw.get("message", ""), argnames) if tw["verdict"] == "refuted" else None
        tw["args"] = witness
        runs["twin"] = tw
        if witness is not None:
            st, v = concrete_run(ob, part, witness)
            tw["concrete"] = st
            result["functions"] = _trace_functions(
                lambda: ob.fn(**part, **witness), REPO.rstrip("/") + "/"
            )
        # ---------------- main / exclude / region runs ----------------
        def mk_call(mode: str):
            def call(**kw):
                try:
                    v = ob.fn(**part, **kw)
                except (Skip, ModelGap):
                    return True
                if mode == "main":
                    return v is None
                if mode == "exclude":
                    if v is None:
                        return True
                    allargs = dict(part, **kw)
                    for k in active:
                        if ob.regions[k](allargs, v):
                            return True
                    return False
                # region:<id>
                rid = mode.split(":", 1)[1]
                if v is None:
                    return True
                return not ob.regions[rid](dict(part, **kw), v)

            return call

        modes = ["main"] if not active else ["exclude"] + [f"region:{k}" for k in active]
        for mode in modes:
            fn, argnames = _make_wrapper(
                ob, part, tmpdir, mode.replace(":", "_").replace("-", "_"), mk_call(mode)
            )
            tmo = timeout if not mode.startswith("region:") else min(timeout, 90.0)
            r = _gap_aware(_analyze, fn, tmo, ob.path_timeout)
            if r["verdict"] == "refuted":
                args = _parse_call(r["message"], argnames)
                r["args"] = args
                if args is not None:
                    st, v = concrete_run(ob, part, args)
                    r["level1"] = st
                    r["violation"] = v
                    if st == "violation" and mode != "main":
                        allargs = dict(part, **args)
                        r["matched_regions"] = [
                            k for k in active if ob.regions[k](allargs, v)
                        ]
                else:
                    r["level1"] = "unparsed"
            runs[mode] = r
    finally:
        shutil.rmtree(tmpdir, ignore_errors=True)
    result["runs"] = runs
    result["wall_s"] = round(time.time() - t_start, 3)
    return result


def main(argv):
    module, obname, part_idx, tier = argv[1], argv[2], int(argv[3]), argv[4]
    known = [k for k in (argv[5] if len(argv) > 5 else "").split(",") if k]
    try:
        res = run(module, obname, part_idx, tier, known)
    except BaseException as e:  # noqa: BLE001
        res = dict(
            module=module, obligation=obname, part_index=part_idx, tier=tier,
            kind="error", error=f"{type(e).__name__}: {e}",
            traceback=traceback.format_exc()[-3000:], runs={},
        )
    sys.stdout.flush()
    print("\n@@RESULT@@" + json.dumps(res, default=repr))


if __name__ == "__main__":
    main(sys.argv)
