"""Obligation API shared by harness modules, the worker and the orchestrator."""

from __future__ import annotations

import dataclasses
from typing import Any, Callable, Dict, List, Optional


class Skip(Exception):
    """Raised by a harness body when the (symbolic) input is outside the stated
    bounds / validity predicate.  Treated as 'precondition not met'."""


class ModelGap(BaseException):
    """The real code reached an API that the harness's environment model does not
    cover (e.g. a refactoring now calls ``os.rename`` where the model only knows
    ``os.replace``).  Nothing can be said about such a path: the partition is
    reported INCONCLUSIVE (never as a violation, never as confirmed).  A
    BaseException so that ``except Exception`` in the code under analysis does
    not swallow it."""


GAPS: List[str] = []


def gap(what: str):
    GAPS.append(str(what))
    raise ModelGap(what)


class Gappy:
    """Base class of environment models: an attribute the model does not define
    is a model gap, not an AttributeError inside the code under analysis."""

    def __getattr__(self, k):
        if k.startswith("__") and k.endswith("__"):
            raise AttributeError(k)
        gap(f"{type(self).__name__}.{k} is not modelled")


def gappy(ns, name=None):
    """Turn a namespace class of staticmethods (``class P: join = staticmethod(...)``)
    into an instance whose missing attributes are model gaps."""
    return concretely(lambda: type(name or ns.__name__, (ns, Gappy), {})())


@dataclasses.dataclass
class Obligation:
    """One solver-decided proof obligation.

    ``fn(**part, **symbolic_args)`` runs the real xonsh code and returns ``None``
    when the property holds on that path and a short string (``"<kind>: text"``)
    describing the violation otherwise; it raises :class:`Skip` outside the
    bounds.  The symbolic arguments are the parameters of ``fn`` that are not
    partition keys; their annotations tell CrossHair what to make symbolic.
    """

    name: str
    fn: Callable[..., Optional[str]]
    bounds: str  # human-readable statement of the bounds of this obligation
    pre: List[str] = dataclasses.field(default_factory=list)  # PEP316 pre: lines
    # tier -> list of partition dicts (concrete leading arguments)
    parts: Dict[str, List[Dict[str, Any]]] = dataclasses.field(default_factory=dict)
    # tier -> per-condition timeout in seconds (per partition)
    timeout: Dict[str, float] = dataclasses.field(default_factory=dict)
    path_timeout: Optional[float] = None
    # finding-id -> predicate(args: dict, violation: str) -> bool
    regions: Dict[str, Callable[[Dict[str, Any], str], bool]] = dataclasses.field(
        default_factory=dict
    )
    # finding-id -> predicate(part) telling whether the region can intersect a partition at all (default: yes)
    region_parts: Dict[str, Callable[[Dict[str, Any]], bool]] = dataclasses.field(default_factory=dict)
    # level-2 replay through the public API without stubs: args -> violation or None
    replay: Optional[Callable[[Dict[str, Any]], Optional[str]]] = None
    tiers: tuple = ("quick", "thorough")
    doc: str = ""
    # symbolic inputs described for the evidence file
    symbolic: str = ""
    # extra z3 queries etc. are handled by `direct` obligations
    direct: Optional[Callable[[str], Dict[str, Any]]] = None
    # called once per worker before any tracing: prepare(tier, part) (parse/compile programs, build tables)
    prepare: Optional[Callable[[str, Dict[str, Any]], None]] = None

    def partitions(self, tier: str) -> List[Dict[str, Any]]:
        if tier in self.parts:
            return self.parts[tier]
        if "quick" in self.parts and tier == "thorough":
            return self.parts["quick"]
        return [{}]

    def tmo(self, tier: str) -> float:
        if tier in self.timeout:
            return self.timeout[tier]
        return {"quick": 60.0, "thorough": 600.0}[tier]


def violation_kind(v: str) -> str:
    return v.split(":", 1)[0].strip()


def _tracing() -> bool:
    try:
        from crosshair.tracers import is_tracing

        return bool(is_tracing())
    except Exception:  # noqa: BLE001
        return False


def viol(kind: str, details: Callable[[], str]) -> str:
    """Violation description.  Under symbolic execution only the kind tag is
    produced (rendering symbolic values into text forks the path needlessly);
    the plain-Python replay renders the full text."""
    if _tracing():
        return kind + ": (details rendered at replay)"
    return f"{kind}: {details()}"


def concretely(fn, *a, **k):
    """Run fn(*a, **k) with CrossHair tracing switched off.  For harness phases in which every
    value is already concrete (all finite-domain choices have been case-split by the solver):
    the real code then runs at native speed and CrossHair's own container models (which add
    iteration-order nondeterminism and deep copies) stay out of the way."""
    try:
        from crosshair.tracers import NoTracing, is_tracing
    except Exception:  # noqa: BLE001
        return fn(*a, **k)
    if not is_tracing():
        return fn(*a, **k)
    with NoTracing():
        return fn(*a, **k)
