"""Level-2 replay of a counterexample through the public API (no stubs).

python -m vf.replay <module> <obligation> <json-args>
"""

import importlib
import json
import sys
import traceback


def main(argv):
    module, obname, payload = argv[1], argv[2], argv[3]
    args = json.loads(payload)
    try:
        mod = importlib.import_module(module)
        ob = next(o for o in mod.OBLIGATIONS if o.name == obname)
        v = ob.replay(args)
        res = dict(status="violation" if v else "holds", violation=v)
    except BaseException as e:  # noqa: BLE001
        res = dict(status="error", violation=None,
                   stderr=f"{type(e).__name__}: {e}\n{traceback.format_exc()[-2000:]}")
    sys.stdout.flush()
    print("\n@@RESULT@@" + json.dumps(res, default=repr))


if __name__ == "__main__":
    main(sys.argv)
