"""A real, fully loaded xonsh session inside the check process (built once at
import time, outside any traced region)."""

from __future__ import annotations

import os
import tempfile

_SESSION = None


def load_session(extra_env=None, parser_scratch=True):
    """XSH.load with a real Execer and a real Env (not os.environ based).

    The parser tables are regenerated from the working tree's grammar into a
    scratch directory outside /repo and /verif (``yacc_optimize=False``): the
    checked-in parser_table.py is never used.
    """
    global _SESSION
    if _SESSION is not None:
        return _SESSION
    from xonsh.built_ins import XSH
    from xonsh.environ import Env
    from xonsh.execer import Execer

    scratch = tempfile.mkdtemp(prefix="vf_xonsh_")
    initial = {
        "UPDATE_OS_ENVIRON": False,
        "XONSH_DEBUG": 0,
        "XONSH_COLOR_STYLE": "default",
        "XONSH_ENCODING": "utf-8",
        "XONSH_ENCODING_ERRORS": "strict",
        "COMMANDS_CACHE_SAVE_INTERMEDIATE": False,
        "XONSH_DATA_DIR": scratch,
        "XONSH_CACHE_DIR": scratch,
        "XONSH_SHOW_TRACEBACK": True,
        "PATH": [],
        "HOME": scratch,
        "XONSH_HISTORY_BACKEND": "dummy",
        "THREAD_SUBPROCS": False,
        "XONSH_CAPTURE_ALWAYS": False,
    }
    if extra_env:
        initial.update(extra_env)
    env = Env(initial)
    execer = Execer()
    XSH.load(ctx={}, execer=execer, env=env)
    _SESSION = XSH
    return XSH
