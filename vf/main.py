"""Orchestrator: ./check <ID> [--tier quick|thorough] [--replay file] [--only ob[,ob]]

Runs every obligation of harness/<ID>.py in parallel worker processes (CrossHair
symbolic execution of the real /repo code + z3), triages counterexamples through
level-1 (plain Python re-run of the harness) and level-2 (public API, no stubs)
replays, applies /verif/known_findings.jsonl, writes evidence/<ID>.json.

exit 0: nothing explored violated the property (known findings are printed as
        KNOWN-FINDING lines);
exit 1: a reproduced, unlisted violation (VIOLATION line);
exit 3: harness error (vacuous obligation, non-reproducing counterexample, crash).
"""

from __future__ import annotations

import argparse
import concurrent.futures as cf
import hashlib
import importlib
import json
import os
import subprocess
import sys
import time
from typing import Any, Dict, List

HERE = os.path.dirname(os.path.dirname(os.path.abspath(__file__)))
KNOWN = os.path.join(HERE, "known_findings.jsonl")
EVID = os.path.join(HERE, "evidence")


def load_known(prop: str) -> List[Dict[str, Any]]:
    out = []
    if os.path.exists(KNOWN):
        for line in open(KNOWN):
            line = line.strip()
            if not line or line.startswith("#") or line.startswith("fixed:") or line.startswith("known:"):
                continue  # plain-text summary lines (the JSON records carry the same information)
            d = json.loads(line)
            if d.get("property") == prop:
                out.append(d)
    return out


def run_worker(module, ob, idx, tier, known_ids, hard_timeout):
    cmd = [sys.executable, "-m", "vf.worker", module, ob, str(idx), tier, ",".join(known_ids)]
    env = dict(os.environ, PYTHONHASHSEED="0", PYTHONDONTWRITEBYTECODE="1")
    t = time.time()
    try:
        p = subprocess.run(cmd, cwd=HERE, env=env, capture_output=True, text=True,
                           timeout=hard_timeout)
        out = p.stdout
        marker = out.rfind("@@RESULT@@")
        if marker < 0:
            return dict(obligation=ob, part_index=idx, kind="error", runs={},
                        error="no result from worker (rc=%s)" % p.returncode,
                        traceback=(p.stderr or "")[-3000:], wall_s=time.time() - t)
        res = json.loads(out[marker + len("@@RESULT@@"):])
        res["stderr_tail"] = (p.stderr or "")[-500:] if res.get("kind") == "error" else ""
        return res
    except subprocess.TimeoutExpired:
        return dict(obligation=ob, part_index=idx, kind="timeout", runs={},
                    error=f"worker exceeded hard timeout {hard_timeout}s",
                    wall_s=time.time() - t)


def run_level2(module, ob, allargs, timeout=300):
    cmd = [sys.executable, "-m", "vf.replay", module, ob, json.dumps(allargs)]
    env = dict(os.environ, PYTHONHASHSEED="0", PYTHONDONTWRITEBYTECODE="1")
    try:
        p = subprocess.run(cmd, cwd=HERE, env=env, capture_output=True, text=True, timeout=timeout)
    except subprocess.TimeoutExpired:
        return dict(status="violation", violation="level-2 replay did not terminate within %ss" % timeout)
    marker = p.stdout.rfind("@@RESULT@@")
    if marker < 0:
        return dict(status="error", violation=None, stderr=(p.stderr or "")[-2000:])
    return json.loads(p.stdout[marker + len("@@RESULT@@"):])


def write_replay(prop, ob, part, args, violation, level2):
    os.makedirs(os.path.join(EVID, "replays"), exist_ok=True)
    payload = dict(property=prop, obligation=ob, part=part, args=args,
                   violation=violation, level2=level2)
    h = hashlib.sha1(json.dumps(payload, sort_keys=True, default=repr).encode()).hexdigest()[:10]
    path = os.path.join(EVID, "replays", f"{prop}-{h}.json")
    with open(path, "w") as f:
        json.dump(payload, f, indent=1, default=repr)
    return path


def do_replay(prop, path):
    d = json.load(open(path))
    module = f"harness.{prop}"
    mod = importlib.import_module(module)
    ob = next(o for o in mod.OBLIGATIONS if o.name == d["obligation"])
    from vf.worker import concrete_run

    st, v = concrete_run(ob, d.get("part") or {}, d["args"])
    print(f"level-1 (harness, plain Python): {st}: {v}")
    repro = st == "violation"
    if repro and ob.replay is not None:
        r = run_level2(module, ob.name, dict(d.get("part") or {}, **d["args"]))
        print(f"level-2 (public API, no stubs): {r}")
        repro = r.get("status") == "violation"
    if repro:
        print(f"VIOLATION property={prop} replay={path}")
        return 1
    print("does not reproduce")
    return 0


def main(argv=None):
    ap = argparse.ArgumentParser()
    ap.add_argument("prop")
    ap.add_argument("--tier", default=os.environ.get("VERIF_TIER", "quick"))
    ap.add_argument("--replay")
    ap.add_argument("--only")
    ap.add_argument("--jobs", type=int, default=int(os.environ.get("VERIF_JOBS", "0")) or (os.cpu_count() or 4))
    ap.add_argument("--no-evidence", action="store_true")
    a = ap.parse_args(argv)
    prop = a.prop
    tier = a.tier if a.tier in ("quick", "thorough") else "quick"
    seed = int(os.environ.get("VERIF_SEED", "0") or 0)
    sys.path.insert(0, HERE)
    if a.replay:
        return do_replay(prop, a.replay)
    t0 = time.time()
    module = f"harness.{prop}"
    mod = importlib.import_module(module)
    known = load_known(prop)
    known_ids = [k["id"] for k in known if k.get("status") == "known"]
    obs = [o for o in mod.OBLIGATIONS if tier in o.tiers]
    if a.only:
        names = set(a.only.split(","))
        obs = [o for o in obs if o.name in names]
    jobs = []
    for o in obs:
        n = 1 if o.direct is not None else len(o.partitions(tier))
        for i in range(n):
            jobs.append((o, i))
    # seed only permutes scheduling order
    if seed:
        import random

        random.Random(seed).shuffle(jobs)
    results = []
    with cf.ThreadPoolExecutor(max_workers=a.jobs) as ex:
        futs = {
            ex.submit(run_worker, module, o.name, i, tier, known_ids,
                      (o.tmo(tier) * (2 + len([k for k in known_ids if k in o.regions]))) + 240): (o, i)
            for (o, i) in jobs
        }
        for f in cf.as_completed(futs):
            results.append(f.result())
    results.sort(key=lambda r: (r.get("obligation", ""), r.get("part_index", 0)))

    obmap = {o.name: o for o in obs}
    violations: List[Dict[str, Any]] = []
    harness_errors: List[str] = []
    inconclusive: List[str] = []
    known_hit: Dict[str, Dict[str, Any]] = {}
    ob_summ: Dict[str, Dict[str, Any]] = {}
    samples: List[Any] = []
    functions = set()
    paths = queries = 0
    solver_s = 0.0
    replays_l2 = 0
    concrete_witness = 0

    def triage(o, res, mode, r):
        nonlocal replays_l2
        tag = f"{o.name}[{res.get('part_index')}]/{mode}"
        if r.get("level1") != "violation":
            harness_errors.append(
                f"{tag}: counterexample did not reproduce at level 1 ({r.get('level1')}): {r.get('message','')[:300]}")
            return None
        allargs = dict(res.get("part") or {}, **(r.get("args") or {}))
        l2 = None
        if o.replay is not None:
            l2 = run_level2(module, o.name, allargs)
            replays_l2 += 1
            if l2.get("status") == "error":
                harness_errors.append(f"{tag}: level-2 replay crashed: {l2.get('stderr','')[-400:]}")
                return None
            if l2.get("status") != "violation":
                harness_errors.append(
                    f"{tag}: counterexample {allargs} ({r.get('violation')}) holds through the public API "
                    f"(level 2) - model/stub mismatch, not reported as a violation")
                return None
        return dict(obligation=o.name, part=res.get("part"), args=r.get("args"),
                    violation=r.get("violation"), level2=l2)

    for res in results:
        name = res.get("obligation")
        o = obmap.get(name)
        s = ob_summ.setdefault(name, dict(name=name, bounds=getattr(o, "bounds", ""),
                                          symbolic=getattr(o, "symbolic", ""), partitions=0,
                                          confirmed=0, refuted=0, unknown=0, paths=0, queries=0,
                                          solver_s=0.0, wall_s=0.0))
        s["partitions"] += 1
        s["wall_s"] = round(s["wall_s"] + float(res.get("wall_s", 0)), 2)
        if res.get("kind") in ("error", "timeout"):
            harness_errors.append(f"{name}[{res.get('part_index')}]: {res.get('error')}\n{res.get('traceback','')}")
            continue
        functions.update(res.get("functions") or [])
        for mode, r in res["runs"].items():
            paths += r.get("paths", 0)
            queries += r.get("queries", 0)
            solver_s += r.get("solver_s", 0.0)
            s["paths"] += r.get("paths", 0)
            s["queries"] += r.get("queries", 0)
            s["solver_s"] = round(s["solver_s"] + r.get("solver_s", 0.0), 3)
            v = r.get("verdict")
            if mode == "twin":
                if v == "refuted":
                    if r.get("concrete") in ("holds", "violation"):
                        concrete_witness += 1
                    if len(samples) < 12 and r.get("args") is not None:
                        samples.append(dict(obligation=name, part=res.get("part"), reachable_input=r.get("args")))
                elif v == "confirmed" or v == "pre_unsat":
                    harness_errors.append(f"{name}[{res.get('part_index')}]: vacuous (reachability twin {v})")
                else:
                    inconclusive.append(f"{name}[{res.get('part_index')}]: reachability twin {v}: {r.get('message','')[:200]}")
                continue
            if res.get("kind") == "direct":
                for smp in r.get("samples", [])[:4]:
                    samples.append(dict(obligation=name, query=smp))
                if v == "refuted":
                    s["refuted"] += 1
                    violations.append(dict(obligation=name, part={}, args=r.get("counterexample"),
                                           violation=r.get("detail"), level2=None))
                elif v == "confirmed":
                    s["confirmed"] += 1
                elif v == "error":
                    harness_errors.append(f"{name}: {r.get('detail')}")
                else:
                    s["unknown"] += 1
                    inconclusive.append(f"{name}: {r.get('detail','unknown')}")
                continue
            if mode.startswith("region:"):
                rid = mode.split(":", 1)[1]
                if v == "refuted":
                    t = triage(o, res, mode, r)
                    if t is not None and rid not in known_hit:
                        known_hit[rid] = t
                continue
            # main / exclude
            if v == "confirmed":
                s["confirmed"] += 1
            elif v == "refuted":
                s["refuted"] += 1
                t = triage(o, res, mode, r)
                if t is not None:
                    violations.append(t)
            elif v in ("error", "pre_unsat"):
                harness_errors.append(f"{name}[{res.get('part_index')}]/{mode}: {v}: {r.get('message') or r.get('detail')}")
            else:
                s["unknown"] += 1
                if r.get("gaps"):
                    inconclusive.append(
                        f"{name}[{res.get('part_index')}]/{mode}: the code under analysis left the environment model "
                        f"({'; '.join(r['gaps'][:3])}): nothing is claimed for this partition")
                else:
                    inconclusive.append(
                        f"{name}[{res.get('part_index')}]/{mode}: not exhausted within {o.tmo(tier)}s "
                        f"({r.get('paths')} paths explored, none failing) {r.get('message','')[:160]}")

    # ---------------- report ----------------
    kmap = {k["id"]: k for k in known}
    for rid, t in sorted(known_hit.items()):
        print(f"KNOWN-FINDING: property={prop} {rid}: {kmap[rid].get('what','')} "
              f"[re-confirmed: {t['obligation']} {dict(t['part'] or {}, **(t['args'] or {}))}]")
    vio_lines = []
    for t in violations:
        path = write_replay(prop, t["obligation"], t["part"], t["args"], t["violation"], t["level2"])
        t["replay"] = path
        vio_lines.append(f"VIOLATION property={prop} replay={path}")
        print(f"  counterexample: {t['obligation']} part={t['part']} args={t['args']}: {t['violation']}")
    for l in sorted(set(vio_lines)):
        print(l)
    for e in harness_errors:
        print("HARNESS-ERROR:", e, file=sys.stderr)
    for e in inconclusive[:40]:
        print("INCONCLUSIVE:", e)
    n_ob = len(ob_summ)
    n_conf = sum(1 for s in ob_summ.values() if s["confirmed"] == s["partitions"])
    wall = round(time.time() - t0, 2)
    print(f"{prop} [{tier}]: {n_ob} obligations, {sum(s['partitions'] for s in ob_summ.values())} partitions, "
          f"{n_conf} fully confirmed, {len(violations)} violations, {len(inconclusive)} inconclusive, "
          f"{len(harness_errors)} harness errors; {paths} paths, {queries} solver queries, "
          f"{solver_s:.1f}s solver, {wall}s wall")

    if not a.no_evidence:
        os.makedirs(EVID, exist_ok=True)
        for t in list(known_hit.values())[:4]:
            samples.append(dict(known_finding_witness=dict(t["part"] or {}, **(t["args"] or {})), violation=t["violation"]))
        for t in violations[:4]:
            samples.append(dict(counterexample=dict(t["part"] or {}, **(t["args"] or {})), violation=t["violation"]))
        ev = dict(
            property_id=prop, tier=tier, seed=seed, level="model_checking",
            coverage=dict(
                states=max(paths, 1), transitions=max(queries, 1),
                traces_validated_against_impl=concrete_witness + replays_l2,
                samples=samples or [dict(note="no reachable witness recorded")],
                exhaustive=bool(n_ob and n_conf == n_ob and not harness_errors),
                explanation=(
                    "states = execution paths of the real /repo code explored symbolically by CrossHair; "
                    "transitions = z3 check() calls discharged; each path's condition covers every input "
                    "satisfying it. 'exhaustive' means every obligation's path tree was exhausted within its "
                    "stated bounds (CONFIRMED over all paths); otherwise see 'inconclusive'."),
                obligations_detail=sorted(ob_summ.values(), key=lambda s: s["name"]),
                obligations=n_ob, discharged=n_conf,
                solver_seconds=round(solver_s, 2),
                functions_encoded=sorted(functions),
                inconclusive=inconclusive,
                harness_errors=harness_errors,
                known_findings_reconfirmed=sorted(known_hit),
                known_findings_listed=known_ids,
                stubs=getattr(mod, "STUBS", []),
                outside_claim=getattr(mod, "OUTSIDE", []),
            ),
            assumptions=getattr(mod, "ASSUMPTIONS", []),
            wall_s=wall,
            violations=len(violations),
        )
        with open(os.path.join(EVID, f"{prop}.json"), "w") as f:
            json.dump(ev, f, indent=1, default=repr)
        if not a.only:
            # keep the last complete run of each tier as well (evidence/<id>.json is always the latest run)
            with open(os.path.join(EVID, f"{prop}.{tier}.json"), "w") as f:
                json.dump(ev, f, indent=1, default=repr)
    if violations:
        return 1
    if harness_errors:
        return 3
    return 0


if __name__ == "__main__":
    sys.exit(main())
