"""C16 - $PWD, the process directory and the directory stack stay in step.

Real code executed symbolically: xonsh/dirstack.py
  cd, pushd_fn, popd_fn, dirs_fn, _change_working_directory, _try_cdpath, with_pushd.
One inductive step (and the pushd;popd pair) from an arbitrary valid state over a
model directory tree with a symlink, a file, a missing name and a directory
without search permission.
"""

from __future__ import annotations

import posixpath
from typing import List, Optional

import xonsh.dirstack as D
from xonsh.built_ins import XSH

from vf.api import Gappy, Obligation, Skip, gappy, viol

OPAQUE_NUMBER_FORMAT = True

STUBS = [
    "os (as seen from xonsh.dirstack) -> ModelFS facade: getcwd/chdir/access/path.isdir/exists/realpath/expanduser over a fixed tree "
    "(/r, /r/a, /r/a/c, /r/b, file /r/f, no-search-permission dir /r/nx, symlink /r/l -> /r/a/c); chdir resolves '..' physically "
    "like the kernel; path.join/abspath are the real posixpath string functions",
    "glob.iglob (CDPATH) -> model lookup; XSH.expand_path -> identity; events.on_chdir.fire -> no-op; print -> no-op",
    "XSH.env -> dict with PWD/OLDPWD/HOME/CDPATH/AUTO_PUSHD/PUSHD_MINUS/PUSHD_SILENT/DIRSTACK_SIZE",
]
ASSUMPTIONS = [
    "valid pre-state: $PWD names the model's current directory, stack entries are existing directories",
    "POSIX path resolution: '..' after a symlink is resolved physically by chdir, lexically by abspath",
    "documented rules = the docstrings of cd/pushd/popd/dirs (bash directory-stack builtins)",
]
OUTSIDE = ["Windows UNC drive mapping", "BaseShell._fix_cwd and the p'...'.cd() context manager", "stacks deeper than 3 entries"]

# ----------------------------------------------------------------------------
# model file system
# ----------------------------------------------------------------------------
DIRS = {"/", "/r", "/r/a", "/r/a/c", "/r/b", "/r/nx"}
FILES = {"/r/f"}
LINKS = {"/r/l": "/r/a/c"}
NOX = {"/r/nx"}
HOME = "/r/b"


def _resolve(path, cwd):
    """kernel-style resolution -> real directory path or None"""
    if not path.startswith("/"):
        path = cwd + "/" + path
    cur = "/"
    for comp in path.split("/"):
        if comp in ("", "."):
            continue
        if comp == "..":
            cur = posixpath.dirname(cur) or "/"
            continue
        nxt = (cur.rstrip("/") + "/" + comp)
        if nxt in LINKS:
            nxt = LINKS[nxt]
        if nxt in DIRS:
            cur = nxt
        elif nxt in FILES:
            return ("file", nxt)
        else:
            return None
    return ("dir", cur)


class ModelFS(Gappy):
    def __init__(self, cwd):
        self.cwd = cwd
        self.gone = None  # a directory removed behind the shell's back (chdir to it fails)
        fs = self

        class P:
            join = staticmethod(posixpath.join)
            abspath = staticmethod(lambda p: posixpath.normpath(p if p.startswith("/") else fs.cwd + "/" + p))
            splitdrive = staticmethod(posixpath.splitdrive)
            dirname = staticmethod(posixpath.dirname)
            basename = staticmethod(posixpath.basename)

            @staticmethod
            def isdir(p):
                r = _resolve(p, fs.cwd)
                return r is not None and r[0] == "dir"

            @staticmethod
            def exists(p):
                return _resolve(p, fs.cwd) is not None

            @staticmethod
            def realpath(p):
                r = _resolve(p, fs.cwd)
                return r[1] if r else posixpath.normpath(p)

            @staticmethod
            def expanduser(p):
                if p == "~":
                    return HOME
                if p.startswith("~/"):
                    return HOME + p[1:]
                return p

        self.path = gappy(P, "os_path")
        self.X_OK = 1

    def getcwd(self):
        return self.cwd

    def chdir(self, p):
        r = _resolve(p, self.cwd)
        if r is None or (self.gone is not None and r[1] == self.gone):
            raise FileNotFoundError(2, "No such file or directory", p)
        if r[0] != "dir":
            raise NotADirectoryError(20, "Not a directory", p)
        if r[1] in NOX:
            raise PermissionError(13, "Permission denied", p)
        self.cwd = r[1]

    def access(self, p, mode):
        r = _resolve(p, self.cwd)
        return r is not None and r[1] not in NOX


class _Glob:
    def __init__(self, fs):
        self.fs = fs

    def iglob(self, pat):
        if self.fs.path.exists(pat):
            yield pat


class _NoEvents:
    class on_chdir:
        @staticmethod
        def fire(**kw):
            return None


class _Env(dict):
    pass


D.events = _NoEvents
D.print = lambda *a, **k: None

# cwd / stack entries: spelled as the shell would hold them (logical paths)
PLACES = ["/r", "/r/a", "/r/b", "/r/a/c", "/r/l"]
# argument spellings for cd / pushd
TARGETS = ["a", "/r/b", "..", "l", "f", "zz", "nx", "c", "../b", "."]


def _pick(pool, i):
    j = 0
    while j < len(pool) - 1 and i != j:
        j += 1
    return pool[j]


def _state(stack_ix, cwd_i, old_i):
    stack = [_pick(PLACES, i) for i in stack_ix]
    if len(set(stack)) != len(stack):
        raise Skip()  # canonical: distinct entries
    cwd = _pick(PLACES, cwd_i)
    if cwd in stack:
        raise Skip()
    old = None if old_i < 0 else _pick(PLACES, old_i)
    return stack, cwd, old


def _install(fs, cwd, old, stack, auto_pushd, minus, size, cdpath=()):
    D.os = fs
    D.glob = _Glob(fs)
    env = _Env(PWD=cwd, HOME=HOME, CDPATH=list(cdpath), AUTO_PUSHD=auto_pushd, PUSHD_MINUS=minus,
               PUSHD_SILENT=True, DIRSTACK_SIZE=size)
    if old is not None:
        env["OLDPWD"] = old
    XSH.env = env
    if XSH.expand_path is None or getattr(XSH.expand_path, "__name__", "") != "_ident":
        def _ident(s, *a, **k):
            return s
        XSH.expand_path = _ident
    D.DIRSTACK = list(stack)  # rebind: a previous path may have left a symbolic slice view behind
    return env


def _real(p, fs_cwd="/"):
    r = _resolve(p, fs_cwd)
    return r[1] if r and r[0] == "dir" else None


def _check_sync(env, fs, tag):
    if _real(env["PWD"]) != fs.cwd:
        return viol("pwd-out-of-step", lambda: f"{tag}: $PWD={env['PWD']!r} names {_real(env['PWD'])!r} but the process is in {fs.cwd!r}")
    return None


def _is_error(res):
    return res is not None and len(res) == 3 and res[2] not in (0, None)


def _unchanged(env, fs, stack0, cwd0, old0, real0, tag):
    if env["PWD"] != cwd0 or fs.cwd != real0 or list(D.DIRSTACK) != stack0 or env.get("OLDPWD") != old0:
        return viol("failure-changes-state", lambda: (
            f"{tag}: failed but state changed: PWD {cwd0!r}->{env['PWD']!r}, cwd {real0!r}->{fs.cwd!r}, "
            f"stack {stack0}->{list(D.DIRSTACK)}, OLDPWD {old0!r}->{env.get('OLDPWD')!r}"))
    return None


# ----------------------------------------------------------------------------
# cd
# ----------------------------------------------------------------------------
CD_FORMS = ["none", "dir", "-", "-N", "-bad", "two", "-P"]


def ob_cd(nstack: int, form: int, s0: int, s1: int, s2: int, cwd_i: int, old_i: int, tgt: int, n: int,
          auto_pushd: bool, size: int, cdp: bool = False) -> Optional[str]:
    if not (0 <= form < len(CD_FORMS) and 0 <= cwd_i < len(PLACES) and -1 <= old_i < len(PLACES)
            and 0 <= tgt < len(TARGETS) and 0 <= n <= 4 and 0 <= size <= 5):
        raise Skip()
    ix = [s0, s1, s2][:nstack]
    if any(not (0 <= i < len(PLACES)) for i in ix) or [s0, s1, s2][nstack:] != [0] * (3 - nstack):
        raise Skip()
    stack, cwd, old = _state(ix, cwd_i, old_i)
    kind = _pick(CD_FORMS, form)
    if kind not in ("dir", "-P") and tgt != 0:
        raise Skip()
    if kind != "-N" and n != 0:
        raise Skip()
    real0 = _real(cwd)
    fs = ModelFS(real0)
    env = _install(fs, cwd, old, stack, auto_pushd, False, size, cdpath=["/r/a"] if cdp else ())
    t = _pick(TARGETS, tgt)
    nn = _pick([0, 1, 2, 3, 4], n)
    args = {"none": [], "dir": [t], "-": ["-"], "-N": ["-" + str(nn)], "-bad": ["-x"], "two": ["a", "b"], "-P": ["-P", t]}[kind]
    res = D.cd(list(args))
    tag = f"cd {' '.join(args)} from {cwd} stack={stack} OLDPWD={old}" + (" CDPATH=['/r/a']" if cdp else "")
    c = _check_sync(env, fs, tag)
    if c:
        return c
    # reference
    dest = None
    err = False
    if kind == "none":
        dest = HOME
    elif kind in ("dir", "-P"):
        r = _resolve(t, real0)
        if cdp and (r is None or r[0] != "dir"):
            # $CDPATH: a name that is not a directory relative to the cwd is looked up under each $CDPATH entry
            # (xonsh documents: a relative directory is always preferred)
            r2 = _resolve("/r/a/" + t, "/")
            if r2 is not None:
                t = "/r/a/" + t
                r = r2
        if r is None or r[0] != "dir" or r[1] in NOX:
            err = True
        else:
            dest = t
    elif kind == "-":
        if old is None:
            err = True
        else:
            dest = old
    elif kind == "-N":
        if nn == 0:
            dest = None
        elif nn > len(stack):
            err = True
        else:
            dest = stack[nn - 1]
    else:
        err = True
    if err:
        if not _is_error(res):
            return viol("no-error", lambda: f"{tag}: returned {res!r}")
        return _unchanged(env, fs, stack, cwd, old, real0, tag)
    if _is_error(res):
        return viol("spurious-error", lambda: f"{tag}: {res!r}")
    if dest is None:
        return _unchanged(env, fs, stack, cwd, old, real0, tag)
    exp_pwd = posixpath.normpath(posixpath.join(cwd, dest))
    if kind == "-P":
        exp_pwd = _real(posixpath.join(cwd, dest), "/") or exp_pwd
        exp_pwd = _resolve(dest, real0)[1]
    if env["PWD"] != exp_pwd:
        return viol("wrong-directory", lambda: f"{tag}: $PWD={env['PWD']!r}, expected {exp_pwd!r}")
    if env.get("OLDPWD") != cwd:
        return viol("oldpwd", lambda: f"{tag}: $OLDPWD={env.get('OLDPWD')!r}, expected {cwd!r}")
    exp_stack = list(stack)
    if auto_pushd:
        exp_stack = ([cwd] + exp_stack)[:size]
    if list(D.DIRSTACK) != exp_stack:
        return viol("stack", lambda: f"{tag} auto_pushd={auto_pushd} size={size}: stack {list(D.DIRSTACK)}, expected {exp_stack}")
    return None


# ----------------------------------------------------------------------------
# pushd / popd / dirs
# ----------------------------------------------------------------------------
def _rot_ref(L, form_plus, nn, minus):
    """index into dirs list L selected by +N / -N"""
    from_left = form_plus != minus  # '+' counts from the left unless $PUSHD_MINUS
    if nn >= len(L):
        return None
    return nn if from_left else len(L) - 1 - nn


PUSHD_FORMS = ["none", "dir", "+N", "-N", "bad"]


def ob_pushd(nstack: int, form: int, s0: int, s1: int, s2: int, cwd_i: int, tgt: int, n: int,
             nocd: bool, minus: bool, size: int, gone: bool) -> Optional[str]:
    if not (0 <= form < len(PUSHD_FORMS) and 0 <= cwd_i < len(PLACES) and 0 <= tgt < len(TARGETS)
            and 0 <= n <= 4 and 0 <= size <= 5):
        raise Skip()
    ix = [s0, s1, s2][:nstack]
    if any(not (0 <= i < len(PLACES)) for i in ix) or [s0, s1, s2][nstack:] != [0] * (3 - nstack):
        raise Skip()
    stack, cwd, _ = _state(ix, cwd_i, -1)
    if len(stack) > size:
        raise Skip()  # invariant of the pre-state: the stack already respects $DIRSTACK_SIZE
    kind = _pick(PUSHD_FORMS, form)
    if kind != "dir" and tgt != 0:
        raise Skip()
    if kind not in ("+N", "-N") and n != 0:
        raise Skip()
    real0 = _real(cwd)
    fs = ModelFS(real0)
    env = _install(fs, cwd, None, stack, False, minus, size)
    t = _pick(TARGETS, tgt)
    nn = _pick([0, 1, 2, 3, 4], n)
    arg = {"none": None, "dir": t, "+N": "+" + str(nn), "-N": "-" + str(nn), "bad": "+x"}[kind]
    L = [cwd] + stack
    # reference (documented: rotate) and the move-to-top alternative (known finding)
    err = False
    new_cwd = None
    new_stack = None
    alt_stack = None
    if kind == "none":
        if not stack:
            err = True
        elif nocd:
            new_cwd, new_stack = None, list(stack)  # nothing to exchange without changing directory
        else:
            new_cwd, new_stack = stack[0], [cwd] + stack[1:]
    elif kind == "dir":
        r = _resolve(t, real0)
        if r is None or r[0] != "dir":
            err = True
        elif nocd:
            new_cwd, new_stack = None, [t] + stack
        elif r[1] in NOX:
            err = True  # cannot enter it
        else:
            new_cwd, new_stack = t, [cwd] + stack
    elif kind in ("+N", "-N"):
        idx = _rot_ref(L, kind == "+N", nn, minus)
        if idx is None:
            err = True
        elif idx == 0:
            new_cwd, new_stack = None, list(stack)
        else:
            rot = L[idx:] + L[:idx]
            new_cwd, new_stack = rot[0], rot[1:]
            alt_stack = [cwd] + [d for d in stack if d != L[idx]]
            if nocd:
                # -n: only the stack is manipulated
                new_cwd = None
                new_stack = [L[idx]] + [d for d in stack if d != L[idx]]
                alt_stack = None
    else:
        err = True
    if gone and new_cwd is not None:
        fs.gone = _real(posixpath.join(cwd, new_cwd))
        err = True
    res = D.pushd_fn(arg, cd=not nocd, quiet=True)
    tag = f"pushd {arg} {'-n ' if nocd else ''}from {cwd} stack={stack} PUSHD_MINUS={minus} size={size}" + (" (target removed)" if gone else "")
    c = _check_sync(env, fs, tag)
    if c:
        return c
    got_stack = list(D.DIRSTACK)
    if len(got_stack) > size:
        return viol("stack-too-long", lambda: f"{tag}: stack has {len(got_stack)} entries > $DIRSTACK_SIZE")
    if err:
        if not _is_error(res):
            # the property: a failed operation changes nothing and reports an error
            k = "chdir-failure-unreported" if (gone or (kind == "dir" and not nocd)) and _resolve(t if kind == "dir" else ".", real0) else "no-error"
            c = _unchanged(env, fs, stack, cwd, None, real0, tag)
            if c:
                return viol(k + "+state-changed", lambda: f"{tag}: returned {res!r}; stack {stack}->{got_stack}")
            return viol(k, lambda: f"{tag}: returned {res!r}")
        return _unchanged(env, fs, stack, cwd, None, real0, tag)
    if _is_error(res):
        return viol("spurious-error", lambda: f"{tag}: {res!r}")
    exp_pwd = cwd if new_cwd is None else posixpath.normpath(posixpath.join(cwd, new_cwd))
    if new_cwd is not None and kind == "dir":
        new_stack = [cwd] + stack
    if env["PWD"] != exp_pwd:
        return viol("wrong-directory", lambda: f"{tag}: $PWD={env['PWD']!r}, expected {exp_pwd!r}")
    exp_stack = new_stack[:size]
    if got_stack != exp_stack:
        if alt_stack is not None and got_stack == alt_stack[:size] and len(L) >= 3:
            return viol("pushd-not-rotating", lambda: f"{tag}: dirs {[env['PWD']] + got_stack}; rotation gives {[exp_pwd] + exp_stack}")
        return viol("stack", lambda: f"{tag}: stack {got_stack}, expected {exp_stack}")
    return None


POPD_FORMS = ["none", "+N", "-N", "bad"]


def ob_popd(nstack: int, form: int, s0: int, s1: int, s2: int, cwd_i: int, n: int,
            nocd: bool, minus: bool, gone: bool) -> Optional[str]:
    if not (0 <= form < len(POPD_FORMS) and 0 <= cwd_i < len(PLACES) and 0 <= n <= 4):
        raise Skip()
    ix = [s0, s1, s2][:nstack]
    if any(not (0 <= i < len(PLACES)) for i in ix) or [s0, s1, s2][nstack:] != [0] * (3 - nstack):
        raise Skip()
    stack, cwd, _ = _state(ix, cwd_i, -1)
    kind = _pick(POPD_FORMS, form)
    if kind not in ("+N", "-N") and n != 0:
        raise Skip()
    real0 = _real(cwd)
    fs = ModelFS(real0)
    env = _install(fs, cwd, None, stack, False, minus, 20)
    nn = _pick([0, 1, 2, 3, 4], n)
    arg = {"none": None, "+N": "+" + str(nn), "-N": "-" + str(nn), "bad": "+x"}[kind]
    L = [cwd] + stack
    err = False
    new_cwd, new_stack = None, None
    if kind == "none":
        if not stack:
            err = True
        else:
            new_cwd, new_stack = stack[0], stack[1:]
    elif kind in ("+N", "-N"):
        idx = _rot_ref(L, kind == "+N", nn, minus)
        if idx is None or not stack:
            err = True
        elif idx == 0:
            new_cwd, new_stack = stack[0], stack[1:]
        else:
            new_cwd, new_stack = None, [d for k, d in enumerate(L) if k != idx][1:]
    else:
        err = True
    if nocd and new_cwd is not None:
        new_cwd = None  # only the stack is manipulated
    if gone and new_cwd is not None:
        fs.gone = _real(new_cwd)
        err = True
    res = D.popd_fn(arg, cd=not nocd, quiet=True)
    tag = f"popd {arg} {'-n ' if nocd else ''}from {cwd} stack={stack} PUSHD_MINUS={minus}" + (" (target removed)" if gone else "")
    c = _check_sync(env, fs, tag)
    if c:
        return c
    got_stack = list(D.DIRSTACK)
    if err:
        if not _is_error(res):
            c = _unchanged(env, fs, stack, cwd, None, real0, tag)
            k = "chdir-failure-unreported" if gone else "no-error"
            if c:
                return viol(k + "+state-changed", lambda: f"{tag}: returned {res!r}; stack {stack}->{got_stack}")
            return viol(k, lambda: f"{tag}: returned {res!r}")
        return _unchanged(env, fs, stack, cwd, None, real0, tag)
    if _is_error(res):
        return viol("spurious-error", lambda: f"{tag}: {res!r}")
    exp_pwd = cwd if new_cwd is None else new_cwd
    if env["PWD"] != exp_pwd:
        return viol("wrong-directory", lambda: f"{tag}: $PWD={env['PWD']!r}, expected {exp_pwd!r}")
    if got_stack != new_stack:
        return viol("stack", lambda: f"{tag}: stack {got_stack}, expected {new_stack}")
    return None


def ob_dirs(nstack: int, s0: int, s1: int, s2: int, cwd_i: int, form: int, n: int, minus: bool) -> Optional[str]:
    if not (0 <= form < 3 and 0 <= cwd_i < len(PLACES) and 0 <= n <= 4):
        raise Skip()
    ix = [s0, s1, s2][:nstack]
    if any(not (0 <= i < len(PLACES)) for i in ix) or [s0, s1, s2][nstack:] != [0] * (3 - nstack):
        raise Skip()
    stack, cwd, _ = _state(ix, cwd_i, -1)
    if form == 0 and n != 0:
        raise Skip()
    real0 = _real(cwd)
    fs = ModelFS(real0)
    env = _install(fs, cwd, None, stack, False, minus, 20)
    nn = _pick([0, 1, 2, 3, 4], n)
    arg = None if form == 0 else ("+" if form == 1 else "-") + str(nn)
    res = D.dirs_fn(arg, long=True)
    tag = f"dirs {arg} from {cwd} stack={stack} PUSHD_MINUS={minus}"
    L = [cwd] + stack
    c = _unchanged(env, fs, stack, cwd, None, real0, tag)
    if c:
        return c
    if form == 0:
        if res[0] != " ".join(L) + "\n":
            return viol("dirs-output", lambda: f"{tag}: {res!r}")
        return None
    idx = _rot_ref(L, form == 1, nn, minus)
    if idx is None:
        if not _is_error(res):
            return viol("no-error", lambda: f"{tag}: {res!r}")
        return None
    if _is_error(res) or res[0] != L[idx] + "\n":
        return viol("dirs-selection", lambda: f"{tag}: {res!r}, expected {L[idx]!r}")
    return None


def ob_push_pop(nstack: int, s0: int, s1: int, s2: int, cwd_i: int, tgt: int, minus: bool, ctx: bool) -> Optional[str]:
    """pushd d; popd restores both the directory and the stack (also through with_pushd)."""
    if not (0 <= cwd_i < len(PLACES) and 0 <= tgt < len(TARGETS)):
        raise Skip()
    ix = [s0, s1, s2][:nstack]
    if any(not (0 <= i < len(PLACES)) for i in ix) or [s0, s1, s2][nstack:] != [0] * (3 - nstack):
        raise Skip()
    stack, cwd, _ = _state(ix, cwd_i, -1)
    real0 = _real(cwd)
    fs = ModelFS(real0)
    env = _install(fs, cwd, None, stack, False, minus, 20)
    t = _pick(TARGETS, tgt)
    r = _resolve(t, real0)
    if r is None or r[0] != "dir" or r[1] in NOX:
        raise Skip()
    tag = f"pushd {t}; popd from {cwd} stack={stack}"
    if ctx:
        with D.with_pushd(t):
            c = _check_sync(env, fs, tag + " (inside with_pushd)")
            if c:
                return c
    else:
        r1 = D.pushd_fn(t, quiet=True)
        if _is_error(r1):
            return viol("spurious-error", lambda: f"{tag}: pushd {r1!r}")
        c = _check_sync(env, fs, tag + " (after pushd)")
        if c:
            return c
        r2 = D.popd_fn(None, quiet=True)
        if _is_error(r2):
            return viol("spurious-error", lambda: f"{tag}: popd {r2!r}")
    c = _check_sync(env, fs, tag)
    if c:
        return c
    if env["PWD"] != cwd or list(D.DIRSTACK) != stack:
        return viol("push-pop-not-identity", lambda: f"{tag}: now in {env['PWD']!r} stack={list(D.DIRSTACK)}")
    return None


def direct_reference_vs_bash(tier):
    """Oracle validation (not a solver query): the rotation / removal / selection rules used as reference
    (bash directory-stack builtins, which xonsh's docstrings cite) agree with a real bash on a real tree."""
    import os
    import shutil
    import subprocess
    import tempfile
    import time

    t0 = time.time()
    root = os.path.realpath(tempfile.mkdtemp(prefix="vf_c16_"))
    n = 0
    samples = []
    try:
        names = ["d0", "d1", "d2", "d3"]
        for d in names:
            os.makedirs(os.path.join(root, d))
        for size in (2, 3, 4):
            # build `dirs` = [d{size-1}, ..., d0] by pushing
            build = "cd %s/d0; " % root + " ".join("pushd %s/%s >/dev/null;" % (root, d) for d in names[1:size])
            L = [os.path.join(root, d) for d in reversed(names[:size])]
            for sign in "+-":
                for k in range(size + 1):
                    for cmd in ("pushd", "popd", "dirs"):
                        script = build + " %s %s%d >/dev/null 2>&1; echo rc=$?; dirs -p -l" % (cmd, sign, k)
                        out = subprocess.run(["bash", "-c", script], capture_output=True, text=True).stdout.split("\n")
                        rc = int(out[0][3:])
                        got = [x for x in out[1:] if x]
                        idx = _rot_ref(L, sign == "+", k, False)
                        if cmd == "dirs":
                            exp_rc, exp = (0 if idx is not None else 1), L
                        elif idx is None:
                            exp_rc, exp = 1, L
                        elif cmd == "pushd":
                            exp_rc, exp = 0, L[idx:] + L[:idx]
                        else:
                            exp_rc, exp = 0, [d for j, d in enumerate(L) if j != idx]
                        n += 1
                        if (rc != 0) != (exp_rc != 0) or got != exp:
                            return dict(verdict="error", queries=0, solver_s=0.0,
                                        detail=f"reference disagrees with bash: dirs={L} `{cmd} {sign}{k}`: bash rc={rc} dirs={got}, reference rc={exp_rc} dirs={exp}")
                        if len(samples) < 3:
                            samples.append(dict(dirs=[os.path.basename(x) for x in L], cmd=f"{cmd} {sign}{k}", bash=[os.path.basename(x) for x in got]))
        return dict(verdict="confirmed", queries=0, solver_s=0.0, paths=n, samples=samples,
                    detail=f"reference agrees with bash on {n} pushd/popd/dirs +N/-N instances", wall_s=round(time.time() - t0, 2))
    finally:
        shutil.rmtree(root, ignore_errors=True)


def _region_rotation(args, v):
    return v.startswith("pushd-not-rotating")


def _region_chdir_fail(args, v):
    return v.startswith("chdir-failure-unreported")


def _stack_parts(extra=({},), maxn=3):
    return [dict(nstack=k, **e) for k in range(maxn + 1) for e in extra]


_PRE = ["0 <= cwd_i < 5", "0 <= s0 < 5", "0 <= s1 < 5", "0 <= s2 < 5"]
_B = "stack of 0..3 distinct entries and cwd over 5 places (one reached through a symlink); "
_QB = ("quick tier canonicalises what an operation cannot depend on: rotation/selection forms start from one fixed cwd, "
       "target forms use stacks of <=1 entry, $OLDPWD varies only for `cd -`; thorough frees all of it; ")
# quick partitions (canonicalised), thorough = everything free
_CD_Q = ([dict(nstack=0, form=f, old_i=-1, cwd_i=0) for f in (0, 4, 5)] + [dict(nstack=0, form=2)]
         + [dict(nstack=0, form=f, old_i=-1, cdp=True, auto_pushd=False) for f in (1, 6)]
         + [dict(nstack=k, form=3, cwd_i=0, old_i=-1) for k in (0, 2)]
         + [dict(nstack=k, form=f, old_i=-1) for k in (0, 1) for f in (1, 6)])
_PUSHD_Q = ([dict(nstack=k, form=0, cwd_i=0, gone=False) for k in (0, 1, 2)]
            + [dict(nstack=k, form=1, gone=False) for k in (0, 1)]
            + [dict(nstack=k, form=f, cwd_i=0, gone=False) for k in (0, 1, 2, 3) for f in (2, 3)]
            + [dict(nstack=1, form=4, cwd_i=0, gone=False)]
            + [dict(nstack=1, form=f, cwd_i=0, gone=True) for f in (0, 1, 2)])
_POPD_Q = ([dict(nstack=k, form=f, cwd_i=0, gone=False) for k in range(4) for f in range(4)]
           + [dict(nstack=k, form=0, cwd_i=0, gone=True) for k in (1, 2)])
OBLIGATIONS = [
    Obligation("reference_vs_bash", None, direct=direct_reference_vs_bash,
               bounds="oracle validation: +N/-N selection, rotation (pushd) and removal (popd) of the reference vs real bash on stacks of 2..4 entries",
               symbolic="none (concrete validation of the reference model)"),
    Obligation("cd", ob_cd, bounds=_B + _QB + "cd with no arg / 10 target spellings / - / -N (0..4) / malformed / two args / -P; $AUTO_PUSHD; $DIRSTACK_SIZE 0..5",
               pre=_PRE + ["0 <= form < 7", "-1 <= old_i < 5", "0 <= tgt < 10", "0 <= n <= 4", "0 <= size <= 5"],
               parts={"quick": [dict(dict(cdp=False), **p) for p in _CD_Q],
                      "thorough": [dict(nstack=k, form=f, old_i=-1, cdp=False) for k in range(3) for f in (0, 1, 3, 4, 5, 6)]
                      + [dict(nstack=3, form=3, old_i=-1, cdp=False)] + [dict(nstack=k, form=2, cdp=False) for k in range(2)]
                      + [dict(nstack=k, form=f, cdp=True, old_i=-1) for k in range(2) for f in (1, 6)]},
               timeout={"quick": 240, "thorough": 1500}, symbolic="state indices, target, N, flags, size"),
    Obligation("pushd", ob_pushd, bounds=_B + _QB + "pushd with no arg / 10 targets / +N / -N / malformed; -n; $PUSHD_MINUS; $DIRSTACK_SIZE 0..5; target removed before chdir",
               pre=_PRE + ["0 <= form < 5", "0 <= tgt < 10", "0 <= n <= 4", "0 <= size <= 5"],
               parts={"quick": _PUSHD_Q,
                      "thorough": [dict(nstack=k, form=f, gone=g) for k in range(4) for f in (0, 2, 3, 4) for g in (False, True)]
                                  + [dict(nstack=k, form=1, gone=g) for k in range(3) for g in (False, True)]},
               timeout={"quick": 300, "thorough": 1500},
               regions={"C16-pushd-moves-instead-of-rotating": _region_rotation, "C16-pushd-popd-chdir-failure": _region_chdir_fail},
               symbolic="state indices, target, N, -n, $PUSHD_MINUS, size"),
    Obligation("popd", ob_popd, bounds=_B + _QB + "popd with no arg / +N / -N / malformed; -n; $PUSHD_MINUS; target removed before chdir",
               pre=_PRE + ["0 <= form < 4", "0 <= n <= 4"],
               parts={"quick": _POPD_Q,
                      "thorough": [dict(nstack=k, form=f, gone=g) for k in range(4) for f in range(4) for g in (False, True)]},
               timeout={"quick": 240, "thorough": 1500},
               regions={"C16-pushd-popd-chdir-failure": _region_chdir_fail},
               symbolic="state indices, N, -n, $PUSHD_MINUS"),
    Obligation("dirs", ob_dirs, bounds=_B + _QB + "dirs with no arg / +N / -N; $PUSHD_MINUS",
               pre=_PRE + ["0 <= form < 3", "0 <= n <= 4"],
               parts={"quick": _stack_parts([dict(cwd_i=0)]), "thorough": _stack_parts()},
               timeout={"quick": 200, "thorough": 900}, symbolic="state indices, N, $PUSHD_MINUS"),
    Obligation("push_pop", ob_push_pop, bounds=_B + "pushd d; popd and `with with_pushd(d)` for every enterable target (stack <=1 quick, <=3 thorough)",
               pre=_PRE + ["0 <= tgt < 10"], parts={"quick": _stack_parts([dict(ctx=False), dict(ctx=True)], 1),
                                                    "thorough": _stack_parts([dict(ctx=False), dict(ctx=True)], 3)},
               timeout={"quick": 200, "thorough": 900}, symbolic="state indices, target"),
]
