"""C07 - redirections and pipes deliver each stream to exactly the documented place (decoding and wiring).

Real code executed: xonsh/procs/specs.py _redirect_streams, _parse_redirects, SubprocSpec.__init__, the stdin/stdout/
stderr single-assignment slots, SubprocSpec.build -> resolve_args_list/resolve_redirects, cmds_to_specs (pipe wiring,
a>p / e>p sentinels, background '&', error path); xonsh/parsers/tokenize.py IORedirect pattern and spelling tables.
The operator spelling is a symbolic index into the COMPLETE spelling table read from the tokenizer at run time.
"""

from __future__ import annotations

import re
import subprocess
from typing import List, Optional

from vf.api import Obligation, Skip, concretely, viol
from vf.session import load_session

XSH = load_session({"THREAD_SUBPROCS": True})

import xonsh.parsers.tokenize as TK  # noqa: E402
import xonsh.procs.specs as S  # noqa: E402
import xonsh.tools as xt  # noqa: E402

STUBS = [
    "safe_open -> ModelFile(target, mode) (records every open; nothing is created on disk)",
    "PipeChannel.from_pipe -> model pipe with integer ends; _update_last_spec (capture plumbing of the last stage) -> no-op",
    "commands are callable aliases (no PATH search); locate_executable -> None",
]
ASSUMPTIONS = [
    "documented routing: origin class {stdout, stderr, both} x {'>' truncate, '>>' append, '<' read} x destination class "
    "{file, the other stream, following pipe}, as in the tutorial's redirect tables; the reference decoder is written from that table",
]
OUTSIDE = ["bytes actually arriving in files/pipes (needs real fds and processes)", "the grammar producing (operator, target) tuples from text",
           "capture plumbing of the last stage (_update_last_spec), alias-side handle resolution in ProcProxyThread"]

OPAQUE_NUMBER_FORMAT = True

# ---- the complete operator spelling table, from the tokenizer ----
SPELLINGS = sorted(set(TK._redir_check_single) | set(TK._redir_check_map) | {">", ">>", "<"})

OUT_NAMES = {"", "o", "out", "1"}
ERR_NAMES = {"e", "err", "2"}
ALL_NAMES = {"a", "all", "&"}


def ref_decode(sp):
    """Independent decoder written from the documentation.
    -> (kind, stream, mode): kind in file/merge/pipe/stdin"""
    m = re.fullmatch(r"([a-z0-9&]*)(>>|>|<)(&?[a-z0-9]*)", sp)
    if not m:
        return None
    orig, op, dest = m.groups()
    if op == "<":
        return ("stdin", "in", "r") if (orig, dest) == ("", "") else None
    stream = "out" if orig in OUT_NAMES else "err" if orig in ERR_NAMES else "all" if orig in ALL_NAMES else None
    if stream is None:
        return None
    mode = "a" if op == ">>" else "w"
    if dest == "":
        return ("file", stream, mode)
    d = dest[1:] if dest.startswith("&") else dest
    if d == "p" and op == ">" and stream in ("err", "all") and orig != "&":
        return ("pipe", stream, None)
    if op == ">" and stream == "err" and d in OUT_NAMES - {""}:
        return ("merge", "err>out", None)
    if op == ">" and stream == "out" and orig != "" and d in ERR_NAMES:
        return ("merge", "out>err", None)
    return None


class ModelFile:
    opened: List = []

    def __init__(self, loc, mode):
        self.loc, self.mode = loc, mode
        self.closed = False
        ModelFile.opened.append(self)

    def close(self):
        self.closed = True


class ModelPipe:
    n = 0

    def __init__(self):
        ModelPipe.n += 2
        self.read_fd, self.write_fd = 1000 + ModelPipe.n, 1001 + ModelPipe.n
        self.closed = False

    def close(self):
        self.closed = True

    close_reader = close_writer = close


def _install():
    S.safe_open = lambda loc, mode, *a, **k: ModelFile(loc, mode)
    S.PipeChannel.from_pipe = staticmethod(lambda *a, **k: ModelPipe())
    S._update_last_spec = lambda spec: None
    S.locate_executable = lambda *a, **k: None
    del ModelFile.opened[:]
    for n in ("c0", "c1", "c2"):
        def fn(args, stdin=None, _n=n):
            return 0
        XSH.aliases[n] = fn


def _pick(pool, i):
    j = 0
    while j < len(pool) - 1 and i != j:
        j += 1
    return pool[j]


def _expect_slots(decoded, targets):
    """fold redirects into expected (stdin, stdout, stderr) descriptions or 'conflict'"""
    slots = {"in": None, "out": None, "err": None}
    for d, tgt in zip(decoded, targets):
        kind, stream, mode = d
        new = {}
        if kind == "stdin":
            new["in"] = ("file", tgt, "r")
        elif kind == "file":
            f = ("file", tgt, mode)
            if stream in ("out", "all"):
                new["out"] = f
            if stream in ("err", "all"):
                new["err"] = f
        elif kind == "merge":
            if stream == "err>out":
                new["err"] = ("STDOUT",)
            else:
                new["out"] = ("TO-ERR",)
        elif kind == "pipe":
            if stream == "all":
                new["out"] = ("PIPE-ALL",)
                new["err"] = ("STDOUT",)
            else:
                new["err"] = ("PIPE-ERR",)
        for k, v in new.items():
            if slots[k] is not None:
                return "conflict"
            slots[k] = v
    return slots


def _describe(v):
    if v is None:
        return None
    if isinstance(v, ModelFile):
        return ("file", v.loc, v.mode)
    if v is subprocess.STDOUT:
        return ("STDOUT",)
    if v is S._PIPE_ALL:
        return ("PIPE-ALL",)
    if v is S._PIPE_ERR:
        return ("PIPE-ERR",)
    if isinstance(v, int) and v == 2:
        return ("TO-ERR",)
    return ("other", repr(v))


def _stage(sps, targets):
    _install()
    cmd = ["c0", "x"]
    for sp, t in zip(sps, targets):
        d = ref_decode(sp)
        cmd.append((sp, t) if d and d[0] in ("file", "stdin") else (sp,))
    decoded = [ref_decode(sp) for sp in sps]
    try:
        spec = S.SubprocSpec.build(list(cmd))
        err = None
    except xt.XonshError as e:
        spec, err = None, str(e)
    tag = f"c0 x {' '.join(sp + ' ' + t for sp, t in zip(sps, targets))}"
    if any(d is None for d in decoded):
        return f"undecodable: {tag}: spelling in the tokenizer table that the documentation does not define"
    exp = _expect_slots(decoded, targets)
    if exp == "conflict":
        if err is None:
            return f"conflict-unreported: {tag}: two redirects claim one stream but no error: stdin={_describe(spec.stdin)} stdout={_describe(spec.stdout)} stderr={_describe(spec.stderr)}"
        return None
    if err is not None:
        return f"spurious-error: {tag}: {err}"
    got = {"in": _describe(spec.stdin), "out": _describe(spec.stdout), "err": _describe(spec.stderr)}
    if got != exp:
        return f"misrouted: {tag}: slots {got}, documented {exp}"
    # a 'both streams' redirect shares ONE open file between stdout and stderr
    for d in decoded:
        if d[0] == "file" and d[1] == "all" and spec.stdout is not spec.stderr:
            return f"double-open: {tag}: stdout and stderr are two separate opens of the same file (truncating writers overwrite each other)"
    n_files = sum(1 for d in decoded if d[0] in ("file", "stdin"))
    if len(ModelFile.opened) != n_files:
        return f"double-open: {tag}: {len(ModelFile.opened)} opens for {n_files} file redirects"
    return None


def ob_stage(n: int, i: int, j: int, same_target: bool, k: int = 0) -> Optional[str]:
    if not (1 <= n <= 3 and 0 <= i < len(SPELLINGS) and 0 <= j < len(SPELLINGS) and 0 <= k < len(SPELLINGS)):
        raise Skip()
    if n == 1 and (j != 0 or same_target):
        raise Skip()
    if n < 3 and k != 0:
        raise Skip()
    sps = [_pick(SPELLINGS, i)] + ([_pick(SPELLINGS, j)] if n >= 2 else []) + ([_pick(SPELLINGS, k)] if n == 3 else [])
    targets = ["f0", "f0" if same_target else "f1", "f2"][: len(sps)]
    r = concretely(_stage, sps, targets)
    if r:
        k, rest = r.split(":", 1)
        return viol(k, lambda: rest.strip())
    return None


def _combos():
    """stdout to a file *and* stderr into the pipe on one stage (`cmd o> f e>p | next`): every spelling pair"""
    outs = [x for x in SPELLINGS if (ref_decode(x) or ("",))[0] == "file" and ref_decode(x)[1] == "out"]
    errp = [x for x in SPELLINGS if (ref_decode(x) or ("",))[0] == "pipe" and ref_decode(x)[1] == "err"]
    return [(a, b) for a in outs for b in errp]


def _pipeline_combo(nstages, pair, pos, background):
    """Stage `pos` diverts stdout to a file and sends stderr down the pipe; every other stage is plain."""
    _install()
    cmds = []
    for k in range(nstages):
        cmd = [f"c{k}", "x"]
        if k == pos:
            cmd += [(pair[0], "f0"), (pair[1],)]
        cmds.append(cmd)
        if k < nstages - 1:
            cmds.append("|")
    if background:
        cmds.append("&")
    tag = f"{cmds}"
    try:
        specs = S.cmds_to_specs(list(cmds), captured="hiddenobject")
    except xt.XonshError as e:
        return f"spurious-error: {tag}: {e}"
    for k in range(nstages - 1):
        up, down = specs[k], specs[k + 1]
        pipes = [p for p in up.pipe_channels if isinstance(p, ModelPipe)]
        if len(pipes) != 1:
            return f"wiring: {tag}: stage {k} owns {len(pipes)} pipes"
        p = pipes[0]
        if down.stdin != p.read_fd:
            return f"wiring: {tag}: stage {k + 1} stdin is {down.stdin!r}, not the read end of the pipe from stage {k}"
        if k == pos:
            if not isinstance(up.stdout, ModelFile):
                return f"wiring: {tag}: stage {k} stdout is {up.stdout!r}, expected the file f0"
            if up.stderr != p.write_fd:
                return f"wiring: {tag}: stage {k} stderr is {up.stderr!r}, expected the write end {p.write_fd}"
        else:
            if up.stdout != p.write_fd:
                return f"wiring: {tag}: stage {k} stdout is {up.stdout!r}, expected the write end {p.write_fd} (unredirected stdout goes to the next stage)"
            if up.stderr is not None:
                return f"wiring: {tag}: stage {k} stderr is {up.stderr!r}, expected the terminal"
    return None


def _pipeline(nstages, sp, pos, background):
    _install()
    d = ref_decode(sp) if sp is not None else None
    cmds = []
    for k in range(nstages):
        cmd = [f"c{k}", "x"]
        if sp is not None and k == pos:
            cmd.append((sp, "f0") if d and d[0] in ("file", "stdin") else (sp,))
        cmds.append(cmd)
        if k < nstages - 1:
            cmds.append("|")
    if background:
        cmds.append("&")
    try:
        specs = S.cmds_to_specs(list(cmds), captured="hiddenobject")
        err = None
    except xt.XonshError as e:
        specs, err = None, str(e)
    tag = f"{cmds}"
    last = nstages - 1
    if d is not None and d[0] == "pipe" and pos == last:
        if err is None:
            return f"pipe-redirect-without-pipe: {tag}: no error although no '|' follows"
        return None
    if d is not None and d[0] == "stdin" and pos > 0:
        if err is None:
            return f"conflict-unreported: {tag}: stdin of a downstream stage is both the pipe and a file"
        return None
    if d is not None and d[0] in ("file",) and d[1] in ("out", "all") and pos < last:
        # documented: a diverted stdout is no longer what the next stage reads -> conflict with the pipe
        if err is None:
            return f"conflict-unreported: {tag}: stdout is redirected to a file and piped at once"
        return None
    if d is not None and d[0] == "merge" and d[1] == "out>err" and pos < last:
        if err is None:
            return f"conflict-unreported: {tag}: stdout is merged into stderr and piped at once"
        return None
    if err is not None:
        return f"spurious-error: {tag}: {err}"
    for k in range(last):
        up, down = specs[k], specs[k + 1]
        pipes = [p for p in up.pipe_channels if isinstance(p, ModelPipe)]
        if len(pipes) != 1:
            return f"wiring: {tag}: stage {k} owns {len(pipes)} pipes"
        p = pipes[0]
        if down.stdin != p.read_fd:
            return f"wiring: {tag}: stage {k + 1} stdin is {down.stdin!r}, not the read end of the pipe from stage {k}"
        want_out, want_err = p.write_fd, None
        if d is not None and k == pos:
            if d[0] == "pipe" and d[1] == "err":
                want_err = p.write_fd
            elif d[0] == "pipe" and d[1] == "all":
                want_err = subprocess.STDOUT
            elif d[0] == "merge" and d[1] == "err>out":
                want_err = subprocess.STDOUT
            elif d[0] == "file" and d[1] == "err":
                want_err = "file"
        if up.stdout != want_out:
            return f"wiring: {tag}: stage {k} stdout is {up.stdout!r}, expected the write end {want_out}"
        got_err = "file" if isinstance(up.stderr, ModelFile) else up.stderr
        if got_err != want_err:
            return f"wiring: {tag}: stage {k} stderr is {up.stderr!r}, expected {want_err!r}"
    if specs[last].background != bool(background):
        return f"background: {tag}: background={specs[last].background}"
    return None


def ob_pipeline(nstages: int, has_redirect: bool, i: int, pos: int, background: bool, combo: bool) -> Optional[str]:
    if not (2 <= nstages <= 4 and 0 <= i < len(SPELLINGS) and 0 <= pos < nstages):
        raise Skip()
    if combo:
        pairs = _combos()
        if has_redirect or not (0 <= i < len(pairs)) or pos >= nstages - 1:
            raise Skip()
        r = concretely(_pipeline_combo, _pick([2, 3, 4], nstages - 2), _pick(pairs, i), _pick([0, 1, 2], pos), True if background else False)
        if r:
            k, rest = r.split(":", 1)
            return viol(k, lambda: rest.strip())
        return None
    if nstages > 3:
        raise Skip()
    if not has_redirect and (i != 0 or pos != 0):
        raise Skip()
    sp = _pick(SPELLINGS, i) if has_redirect else None
    r = concretely(_pipeline, _pick([2, 3], nstages - 2), sp, _pick([0, 1, 2], pos), True if background else False)
    if r:
        k, rest = r.split(":", 1)
        return viol(k, lambda: rest.strip())
    return None


# ----------------------------------------------------------------------------
# direct z3 query: tokenizer language is inside the decoder's language; ordered-choice matching emits the longest spelling
# ----------------------------------------------------------------------------
def _re_to_z3(pattern):
    import z3

    try:
        import re._parser as sre_parse
    except ImportError:  # pragma: no cover
        import sre_parse  # type: ignore

    def conv(items):
        parts = [one(op, av) for op, av in items]
        if not parts:
            return z3.Re("")
        r = parts[0]
        for p in parts[1:]:
            r = z3.Concat(r, p)
        return r

    def one(op, av):
        name = str(op)
        if name == "LITERAL":
            return z3.Re(chr(av))
        if name == "IN":
            alts = []
            for o, a in av:
                if str(o) == "LITERAL":
                    alts.append(z3.Re(chr(a)))
                elif str(o) == "RANGE":
                    alts.append(z3.Range(chr(a[0]), chr(a[1])))
                elif str(o) == "CATEGORY" and "DIGIT" in str(a):
                    alts.append(z3.Range("0", "9"))
                else:
                    raise ValueError(f"unsupported set item {o} {a}")
            return alts[0] if len(alts) == 1 else z3.Union(*alts)
        if name == "BRANCH":
            alts = [conv(x) for x in av[1]]
            return alts[0] if len(alts) == 1 else z3.Union(*alts)
        if name == "SUBPATTERN":
            return conv(av[3])
        if name in ("MAX_REPEAT", "MIN_REPEAT"):
            lo, hi, sub = av
            r = conv(sub)
            if (lo, hi) == (0, 1):
                return z3.Option(r)
            if lo == 0 and hi > 1000:
                return z3.Star(r)
            if lo == 1 and hi > 1000:
                return z3.Plus(r)
            return z3.Loop(r, lo, hi)
        if name == "AT":
            return z3.Re("")
        raise ValueError(f"unsupported regex node {name}")

    return conv(sre_parse.parse(pattern))


def direct_language(tier):
    import time

    import z3

    t0 = time.time()
    queries = 0
    solver_s = 0.0
    tok = _re_to_z3(TK.IORedirect)
    dec = _re_to_z3(S._REDIR_REGEX.pattern)
    maps = sorted(set(S._E2O_MAP) | set(S._O2E_MAP) | set(S._A2P_MAP) | set(S._E2P_MAP))
    # translator validation on the concrete tables next to the regexes
    for sp in SPELLINGS:
        for rx, zr, nm in ((TK.IORedirect, tok, "IORedirect"), (S._REDIR_REGEX.pattern, dec, "_REDIR_REGEX")):
            s = z3.Solver()
            s.add(z3.InRe(z3.StringVal(sp), zr))
            t = time.time()
            r = str(s.check())
            solver_s += time.time() - t
            queries += 1
            if (r == "sat") != (re.fullmatch(rx, sp) is not None):
                return dict(verdict="error", detail=f"regex translation disagrees with re.fullmatch on {sp!r} for {nm}", queries=queries, solver_s=solver_s)
    # inclusion: every string the tokenizer pattern can emit is decodable: in a special map (modulo '&') or matched by _REDIR_REGEX
    x = z3.String("x")
    mapre = z3.Union(*[z3.Re(m) for m in maps]) if len(maps) > 1 else z3.Re(maps[0])
    s = z3.Solver()
    s.set("timeout", 60000)
    s.add(z3.InRe(x, tok), z3.Not(z3.InRe(x, dec)), z3.Not(z3.InRe(x, mapre)))
    # spellings written with '&' (2>&1) are looked up with the '&' removed: allow them through their '&'-free twin
    amp = [m for m in SPELLINGS if "&" in m and m.replace("&", "") in maps]
    for m in amp:
        s.add(x != z3.StringVal(m))
    t = time.time()
    r = str(s.check())
    solver_s += time.time() - t
    queries += 1
    if r == "sat":
        w = s.model()[x].as_string()
        ok = True
        try:
            _install()
            S._redirect_streams(w, "f")
        except Exception:  # noqa: BLE001
            ok = False
        if not ok:
            return dict(verdict="refuted", detail=f"token-not-decodable: the tokenizer can emit {w!r} which _redirect_streams rejects",
                        counterexample=[w], queries=queries, solver_s=round(solver_s, 3))
        return dict(verdict="error", detail=f"z3 witness {w!r} is decodable after all (translation too coarse)", queries=queries, solver_s=solver_s)
    if r != "unsat":
        return dict(verdict="unknown", detail=f"z3 answered {r}", queries=queries, solver_s=round(solver_s, 3))
    # ordered choice: the tokenizer regex, matched leftmost-first as Python does, consumes each spelling completely
    rx = re.compile(TK.IORedirect)
    for sp in SPELLINGS:
        if sp in (">", ">>", "<"):
            continue
        m = rx.match(sp + " ")
        if m is None or m.group() != sp:
            return dict(verdict="refuted", detail=f"spelling-split: the tokenizer pattern matches only {m.group() if m else None!r} of the operator {sp!r}; "
                                                   f"the rest becomes an argument", counterexample=[sp], queries=queries, solver_s=round(solver_s, 3))
    # every spelling decodes to what the documentation says
    for sp in SPELLINGS:
        r_ = _stage([sp], ["f0"])
        if r_:
            return dict(verdict="refuted", detail=r_, counterexample=[sp], queries=queries, solver_s=round(solver_s, 3))
    return dict(verdict="confirmed", queries=queries, solver_s=round(solver_s, 3), paths=len(SPELLINGS),
                samples=[dict(query="exists x in L(tokenize.IORedirect) not in L(_REDIR_REGEX) and not in the special maps -> unsat",
                              spellings=len(SPELLINGS), maps=len(maps))],
                detail=f"{len(SPELLINGS)} spellings; language inclusion unsat", wall_s=round(time.time() - t0, 2))


NSP = len(SPELLINGS)
OBLIGATIONS = [
    Obligation("token_language", None, direct=direct_language,
               bounds="complete tokenizer redirect language (regex, unbounded strings) vs the decoder regex and maps; every spelling of the finite table",
               symbolic="one symbolic string (z3 regex membership)"),
    Obligation("stage_redirects", ob_stage,
               bounds=f"one stage with 1 or 2 (thorough: 3) redirects, each operator any of the {NSP} spellings of the tokenizer's table, same or different target",
               pre=[f"0 <= i < {NSP}", f"0 <= j < {NSP}", f"0 <= k < {NSP}"],
               parts={"quick": [dict(n=1, k=0)] + [dict(n=2, same_target=b, k=0) for b in (False, True)],
                      "thorough": [dict(n=1, k=0)] + [dict(n=2, same_target=b, k=0) for b in (False, True)]
                                  + [dict(n=3, same_target=False, i=a) for a in range(len(SPELLINGS))]},
               timeout={"quick": 240, "thorough": 600},
               symbolic="two spelling indices"),
    Obligation("pipeline_wiring", ob_pipeline,
               bounds=f"pipelines of 2..3 stages, optional redirect (any of the {NSP} spellings) on any stage, optional trailing '&'; "
                      "pipelines of 2..4 stages where one non-last stage diverts stdout to a file and sends stderr into the pipe (every spelling pair)",
               pre=[f"0 <= i < {NSP}", "0 <= pos < 3"], parts={"quick": [dict(nstages=2), dict(nstages=3), dict(nstages=4, combo=True, has_redirect=False)]}, timeout={"quick": 240, "thorough": 600},
               symbolic="spelling index, stage position, background flag"),
]
