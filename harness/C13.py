"""C13 - a crash or I/O failure while saving history never damages what was already saved.

Real code executed: xonsh/history/json.py JsonHistoryFlusher.dump, JsonHistory.delete,
JsonHistory.erasedups, JsonHistoryGC.files (unlock rewrite); xonsh/lib/lazyjson.py ljdump/dumps/LazyJSON.
Every mutating file-system call of the operation is a numbered step of a model file
system with inodes.  Symbolic: the step at which the process is killed, how many
characters of buffered data had reached the disk at that instant, and (separately)
the single call that fails with OSError / writes short.
"""

from __future__ import annotations

import io
import posixpath
from typing import List, Optional

import xonsh.history.json as hj
import xonsh.lib.lazyjson as xlj
from xonsh.built_ins import XSH

from vf.api import Gappy, Obligation, Skip, concretely, viol

STUBS = [
    "open / os.fdopen / os.replace / os.unlink / os.remove / os.write / os.close / tempfile.mkstemp / os.path.* as seen from "
    "xonsh.history.json and xonsh.lib.lazyjson -> model file system with inodes; every mutating call is a numbered step",
    "contract: open(..., 'w') truncates at open; data written through a file object is buffered and reaches the disk as an arbitrary "
    "prefix until close() returns; os.write may write short (returns n < len) under the injected fault; os.replace is atomic; "
    "a completed call is durable (no fsync modelling)",
    "time.time -> constant; uptime.boottime -> constant; _xhj_get_history_files -> the model directory's xonsh-*.json files; print -> no-op",
]
ASSUMPTIONS = [
    "the history directory initially holds complete, loadable files (written by the real lazyjson dumps at start-up)",
    "stray *.json.tmp files after a crash are harmless (they are not history files)",
]
OUTSIDE = ["SQLite backend (WAL inside the C library)", "flush_on_exit signal plumbing", "fsync / power-loss durability",
           "JsonHistory.clear and the initial file written by JsonHistory.__init__ (not among the operations the property lists)"]

OPAQUE_NUMBER_FORMAT = True


class _Crash(BaseException):
    pass


class Inode:
    def __init__(self, content=""):
        self.disk = content  # what is durably on disk
        self.buf = None  # buffered, not yet durable (open for writing)


class _WFile:
    def __init__(self, fs, ino):
        self.fs, self.ino = fs, ino
        ino.buf = ""
        self.closed = False

    def write(self, s):
        self.fs.step("write")
        self.ino.buf += s
        return len(s)

    def flush(self):
        pass

    def close(self):
        if self.closed:
            return
        self.closed = True
        try:
            self.fs.step("close")
        finally:
            pass
        self.ino.disk += self.ino.buf
        self.ino.buf = None

    def __enter__(self):
        return self

    def __exit__(self, *a):
        if a[0] is not None and issubclass(a[0], _Crash):
            return False
        self.close()
        return False


class ModelFS:
    def __init__(self, files, crash_at=-1, fail_at=-1, short=False):
        self.names = {n: Inode(c) for n, c in files.items()}
        self.n = 0
        self.crash_at, self.fail_at, self.short = crash_at, fail_at, short
        self.fds = {}
        self.tmpn = 0
        self.trace: List[str] = []
        self.crashed = False

    # ---- step accounting: crash strikes *before* the call takes effect, failure replaces its effect ----
    def step(self, what):
        k = self.n
        self.n += 1
        self.trace.append(what)
        if k == self.crash_at:
            self.crashed = True
            raise _Crash()
        if k == self.fail_at and not (self.short and what == "os.write"):
            raise OSError(28, f"model: {what} failed")

    # ---- API seen by the code under test ----
    def open(self, path, mode="r", *a, **k):
        path = str(path)
        if isinstance(path, int) or path.isdigit():
            return self.fdopen(int(path), mode)
        if "w" in mode:
            self.step("open-w(truncate)")
            ino = self.names.get(path)
            if ino is None:
                ino = self.names[path] = Inode("")
            ino.disk = ""
            return _WFile(self, ino)
        if path not in self.names:
            raise FileNotFoundError(2, "No such file", path)
        self.step("open-r")  # opening an existing file for reading is a file-system call that can fail too (EMFILE, EIO, EACCES)
        f = io.StringIO(self.names[path].disk)
        f.name = path
        return f

    def mkstemp(self, dir=None, suffix="", **k):
        self.step("mkstemp")
        self.tmpn += 1
        name = posixpath.join(dir or "/h", f"tmp{self.tmpn}{suffix}")
        self.names[name] = Inode("")
        fd = 100 + self.tmpn
        self.fds[fd] = self.names[name]
        return fd, name

    def fdopen(self, fd, mode="r", *a, **k):
        return _WFile(self, self.fds[fd])

    def os_write(self, fd, data):
        k = self.n
        self.step("os.write")
        ino = self.fds[fd]
        s = data.decode("utf-8") if isinstance(data, bytes) else data
        if k == self.fail_at and self.short:
            n = max(1, len(data) // 2)
            ino.disk += s[:n]
            return n
        ino.disk += s
        return len(data)

    def os_close(self, fd):
        pass

    def replace(self, src, dst):
        self.step("replace")
        self.names[dst] = self.names.pop(src)

    def unlink(self, p):
        self.step("unlink")
        if p not in self.names:
            raise FileNotFoundError(2, "No such file", p)
        del self.names[p]


class _P(Gappy):
    def __init__(self, fs):
        self.fs = fs

    dirname = staticmethod(posixpath.dirname)
    join = staticmethod(posixpath.join)
    split = staticmethod(posixpath.split)
    expanduser = staticmethod(lambda p: p)

    def exists(self, p):
        return p in self.fs.names or p == "/h"

    def getsize(self, p):
        return len(self.fs.names[p].disk)

    def getmtime(self, p):
        return 1000.0


class _OS(Gappy):
    def __init__(self, fs):
        self.fs = fs
        self.path = _P(fs)
        self.replace = fs.replace
        self.rename = fs.replace  # POSIX rename == replace
        self.unlink = fs.unlink
        self.remove = fs.unlink
        self.fdopen = fs.fdopen
        self.write = fs.os_write
        self.close = fs.os_close
        self.environ = {}

    def listdir(self, d):
        return [posixpath.basename(n) for n in self.fs.names]

    def makedirs(self, *a, **k):
        pass


class _Tempfile(Gappy):
    def __init__(self, fs):
        self.mkstemp = fs.mkstemp


class _Time:
    @staticmethod
    def time():
        return 2000.0

    @staticmethod
    def sleep(_):
        pass


class _Uptime:
    @staticmethod
    def boottime():
        return 1500.0


class _Env(dict):
    pass


def _cmd(inp, rtn=0, ts=10.0):
    return {"inp": inp, "rtn": rtn, "ts": [ts, ts + 1], "out": "zz"}


def _file(cmds, locked=False, ts0=1600.0):
    return xlj.dumps({"cmds": cmds, "sessionid": "s", "ts": [ts0, None if locked else ts0 + 50], "locked": locked}, sort_keys=True)


F1, F2 = "/h/xonsh-aaa.json", "/h/xonsh-bbb.json"
INITIAL = {
    "flush": {F1: _file([_cmd("ls\n"), _cmd("echo hi\n")], locked=True)},
    "flush_exit": {F1: _file([_cmd("ls\n")], locked=True)},
    "delete": {F1: _file([_cmd("ls\n"), _cmd("secret 1\n"), _cmd("pwd\n")]), F2: _file([_cmd("secret 2\n"), _cmd("cd\n")])},
    "erasedups": {F1: _file([_cmd("ls\n", ts=1.0), _cmd("pwd\n", ts=2.0)]), F2: _file([_cmd("ls\n", ts=5.0), _cmd("ls\n", ts=3.0)])},
    "unlock": {F1: _file([_cmd("ls\n")], locked=True, ts0=1000.0), F2: _file([_cmd("pwd\n")])},
    "flush_corrupt": {F1: _file([_cmd("ls\n"), _cmd("echo hi\n")], locked=True)[:120]},  # an already damaged file: must not get worse than 'old or new'
    "flush_missing": {},  # the session file does not exist yet
    "delete_three": {F1: _file([_cmd("secret 0\n")]), F2: _file([_cmd("keep\n"), _cmd("secret 2\n")]),
                     "/h/xonsh-ccc.json": _file([_cmd("secret 3\n"), _cmd("pwd\n")])},
    "unlock_two": {F1: _file([_cmd("ls\n")], locked=True, ts0=1000.0), F2: _file([_cmd("pwd\n")], locked=True, ts0=1100.0)},
}
OPS = list(INITIAL)


def _install(fs):
    mos = _OS(fs)
    hj.os = mos
    hj.open = fs.open
    hj.tempfile = _Tempfile(fs)
    hj.time = _Time
    hj.uptime = _Uptime
    hj.print = lambda *a, **k: None
    hj._xhj_get_history_files = lambda *a, **k: sorted(n for n in fs.names if n.startswith("/h/xonsh-") and n.endswith(".json"))
    xlj.open = fs.open
    XSH.env = _Env(HISTCONTROL="", XONSH_STORE_STDOUT=False, XONSH_DEBUG=0, XONSH_DATA_DIR="/h")


def _mk_hist():
    h = object.__new__(hj.JsonHistory)
    h.buffer = []
    h.gc = None
    h.filename = F1
    h.sessionid = "s"
    return h


def _run_op(op, fs):
    _install(fs)
    try:
        if op in ("flush", "flush_exit", "flush_corrupt", "flush_missing"):
            fl = object.__new__(hj.JsonHistoryFlusher)
            fl.filename = F1
            fl.buffer = [_cmd("make\n", ts=20.0), _cmd("make test\n", rtn=2, ts=21.0)]
            fl.at_exit = op == "flush_exit"
            fl.skip = None
            fl.dump()
        elif op in ("delete", "delete_three"):
            _mk_hist().delete("secret")
        elif op == "erasedups":
            _mk_hist().erasedups()
        elif op in ("unlock", "unlock_two"):
            saved = hj.JsonHistoryGC.start
            hj.JsonHistoryGC.start = lambda self: None
            try:
                gc = hj.JsonHistoryGC(wait_for_shell=False)
            finally:
                hj.JsonHistoryGC.start = saved
            gc.files(only_unlocked=True)
    except _Crash:
        pass
    except OSError:
        # an I/O error surfacing from the operation is an acceptable outcome; what matters is the disk
        pass
    return fs


def _scenario(op, crash_at, fail_at, short):
    """-> (old contents, new contents, per history file (disk, buffered or None), trace, crashed)"""
    old = dict(INITIAL[op])
    ref = _run_op(op, ModelFS(old))
    new = {n: i.disk for n, i in ref.names.items() if n.startswith("/h/xonsh-")}
    nsteps = ref.n
    fs = _run_op(op, ModelFS(old, crash_at, fail_at, short))
    state = {}
    for n, ino in fs.names.items():
        if n.startswith("/h/xonsh-") and n.endswith(".json"):
            state[n] = (ino.disk, ino.buf)
    return old, new, state, fs.trace, fs.crashed, nsteps


def _loadable(content):
    try:
        f = io.StringIO(content)
        xlj.LazyJSON(f).load()
        return True
    except Exception:  # noqa: BLE001
        return False


MAXSTEP = 16


def _pick(pool, i):
    j = 0
    while j < len(pool) - 1 and i != j:
        j += 1
    return pool[j]


def ob_crash(op_i: int, crash_at: int, partial: int) -> Optional[str]:
    """kill at an arbitrary step with an arbitrary amount of buffered data on disk"""
    if not (0 <= op_i < len(OPS) and 0 <= crash_at < MAXSTEP and partial >= 0):
        raise Skip()
    op = _pick(OPS, op_i)
    k = _pick(list(range(MAXSTEP)), crash_at)
    old, new, state, trace, crashed, nsteps = concretely(_scenario, op, k, -1, False)
    if not crashed:
        raise Skip()  # the operation has fewer steps
    for name in sorted(set(old) | set(state)):
        if name not in state:
            if name not in old:
                continue
            return viol("file-lost", lambda: f"{op}: killed at step {k} ({trace[-1]}): {name} no longer exists")
        disk, buf = state[name]
        good = [c for c in (old.get(name), new.get(name)) if c is not None]
        if buf is None:
            if disk not in good:
                return viol("damaged", lambda: f"{op}: killed at step {k} ({trace[-1]}): {name} holds {len(disk)} chars, neither its previous nor its new version (loadable={_loadable(disk)})")
            continue
        if partial > len(buf):
            raise Skip()
        # the file is open for writing: disk + buf[:partial] must be a complete version for EVERY partial
        allowed = [len(c) - len(disk) for c in good if c.startswith(disk) and c[len(disk):] == buf[: len(c) - len(disk)] and len(c) >= len(disk)]
        ok = False
        for a in allowed:
            if partial == a:
                ok = True
        if not ok:
            kind = "in-place-unlock" if op.startswith("unlock") else "damaged"
            return viol(kind, lambda: f"{op}: killed at step {k} ({trace[-1]}) while {name} was being written in place: {partial} of {len(buf)} buffered characters on disk leave a truncated file")
    return None


def ob_fault(op_i: int, fail_at: int, short: bool) -> Optional[str]:
    """one failing file-system call (OSError, or a short os.write)"""
    if not (0 <= op_i < len(OPS) and 0 <= fail_at < MAXSTEP):
        raise Skip()
    op = _pick(OPS, op_i)
    k = _pick(list(range(MAXSTEP)), fail_at)
    sh = True if short else False
    old, new, state, trace, crashed, nsteps = concretely(_scenario, op, -1, k, sh)
    if k >= nsteps:
        raise Skip()
    for name in sorted(set(old) | set(state)):
        if name not in state:
            if name not in old:
                continue
            return viol("file-lost", lambda: f"{op}: call {k} ({trace[k] if k < len(trace) else '?'}) failed: {name} no longer exists")
        disk, buf = state[name]
        good = [c for c in (old.get(name), new.get(name)) if c is not None]
        if buf is not None or disk not in good:
            kind = "in-place-unlock" if op == "unlock" else "damaged"
            return viol(kind, lambda: f"{op}: call {k} ({trace[k] if k < len(trace) else '?'}) failed{' (short write)' if sh else ''}: {name} is left with {len(disk)} chars, neither its previous nor its new version (loadable={_loadable(disk)})")
    return None


def _region_unlock(args, v):
    return v.startswith("in-place-unlock")


OBLIGATIONS = [
    Obligation("crash", ob_crash,
               bounds="operations: background flush, flush at exit, flush onto a damaged / a missing session file, history delete (2 and 3 files), erasedups "
                      "(2 files), stale-lock unlock during GC enumeration (1 and 2 stale files); kill before any of the operation's <=16 file-system steps; buffered data on disk: any prefix length (unbounded int)",
               pre=["0 <= crash_at < 16", "partial >= 0"], parts={"quick": [dict(op_i=i) for i in range(len(OPS))]},
               timeout={"quick": 120, "thorough": 300}, regions={"C13-unlock-rewrite-in-place": _region_unlock},
               symbolic="kill step, number of buffered characters that reached the disk"),
    Obligation("fault", ob_fault,
               bounds="same operations; any single file-system call fails with OSError, or (os.write only) writes short without raising",
               pre=["0 <= fail_at < 16"], parts={"quick": [dict(op_i=i) for i in range(len(OPS))]},
               timeout={"quick": 120, "thorough": 300}, regions={"C13-unlock-rewrite-in-place": _region_unlock},
               symbolic="failing call index, short-write flag"),
]
