"""C05 - chains, exit codes and fail-fast follow the documented truth table.

Real code executed symbolically (per program, compiled once by the real
parser/transformer outside the traced region):
  the compiled xonsh code object itself (BoolOps over helper calls),
  built_ins.subproc_* helpers, _check_subproc_helper_raise, subproc_check_boolop,
  specs.run_subproc, cmds_to_specs, SubprocSpec.build (alias + decorator
  resolution incl. @error_raise/@error_ignore SpecAttrDecoratorAlias),
  _run_specs, _run_command_pipeline, CommandPipeline.__init__/end/_end/
  __bool__/returncode/_raise_subproc_error/output.
Symbolic: one integer exit code per command, one has-output flag per command,
$XONSH_SUBPROC_RAISE_ERROR, $XONSH_SUBPROC_CMD_RAISE_ERROR, and the program
index inside the partition (finite domain: the generated program list).
"""

from __future__ import annotations

import itertools
import os
import subprocess
from typing import List, Optional

from vf.api import Obligation, Skip, viol
from vf.session import load_session

XSH = load_session({"THREAD_SUBPROCS": True})

import xonsh.procs.jobs as J  # noqa: E402
import xonsh.procs.pipelines as P  # noqa: E402
import xonsh.procs.specs as S  # noqa: E402

OPAQUE_NUMBER_FORMAT = True

STUBS = [
    "SubprocSpec.run -> ModelProc(returncode=symbolic code of that command); records the command in the execution log",
    "CommandPipeline.tee_stdout -> yields nothing, sets .lines to the symbolic has-output choice ('' or one line)",
    "CommandPipeline._set_input/_close_prev_procs/_close_proc/_check_signal/_apply_to_history/_apply_to_thread_local/_return_terminal -> no-op (fds, signals, terminal, bookkeeping)",
    "cmds_to_specs and XSH.expand_path run with CrossHair tracing switched off (they only see concrete argv here; the real bodies run)",
    "specs.resume_process, jobs.add_job -> no-op",
    "time.time in xonsh.procs.pipelines -> constant",
    "CommandPipeline.__bool__ wrapped as bool(orig(self)) (mechanical adapter: CPython rejects a symbolic bool from a C-invoked __bool__)",
    "commands are callable aliases c0..c3, i0..i3 (inner @$()), p0..p3 (upstream pipe stage), zz (follow-up statement)",
]
ASSUMPTIONS = [
    "a command's observable outcome is its exit code and whether it wrote any stdout; the solver chooses both freely",
    "truth table taken from the property text and the in-repo documentation of $XONSH_SUBPROC_RAISE_ERROR / $XONSH_SUBPROC_CMD_RAISE_ERROR",
    "a standalone !(cmd) whose result is never inspected is not 'consumed': no raise is demanded or forbidden under CMD_RAISE_ERROR for it",
]
OUTSIDE = [
    "process exit status of `python -m xonsh -c` / scripts (main_xonsh, BaseShell.default) and $LAST_RETURN_CODE",
    "chains longer than the stated number of operands; commands whose stdout matters beyond empty / non-empty",
]

# ----------------------------------------------------------------------------
# environment model
# ----------------------------------------------------------------------------
LOG: List[str] = []
CODES = {}
OUTS = {}


class ModelProc:
    def __init__(self, name, rc):
        self.name = name
        self.returncode = rc
        self.pid = None
        self.stdin = self.stdout = self.stderr = None
        self.prevs_are_closed = True

    def poll(self):
        return self.returncode

    def wait(self, timeout=None):
        return self.returncode


def _cmd_name(spec):
    for a in spec.args:
        if not a.startswith("@"):
            return a
    return spec.args[0]


def _spec_run(self, *, pipeline_group=None):
    name = _cmd_name(self)
    LOG.append(name)
    return ModelProc(name, CODES[name])


def _tee_stdout(self):
    name = _cmd_name(self.spec)
    # the has-output choice is only consulted where output is what the helper returns
    if self.spec.captured == "stdout" and OUTS.get(name):
        self.lines = ["out\n"]
    else:
        self.lines = []
    return iter(())


class _FakeTime:
    @staticmethod
    def time():
        return 1000.0

    @staticmethod
    def sleep(_):
        pass


def _untraced(fn):
    """Run fn at native speed (CrossHair tracing off).  Only for real functions
    that receive no symbolic data in this harness (spec construction from
    concrete argv): a pure performance device, the real body still runs."""
    import functools

    @functools.wraps(fn)
    def w(*a, **k):
        try:
            from crosshair.tracers import NoTracing, is_tracing
        except Exception:  # noqa: BLE001
            return fn(*a, **k)
        if not is_tracing():
            return fn(*a, **k)
        with NoTracing():
            return fn(*a, **k)

    w._vf_untraced = True
    return w


def install_stubs():
    if not getattr(S.cmds_to_specs, "_vf_untraced", False):
        S.cmds_to_specs = _untraced(S.cmds_to_specs)
    if not getattr(XSH.expand_path, "_vf_untraced", False):
        XSH.expand_path = _untraced(XSH.expand_path)
    S.SubprocSpec.run = _spec_run
    P.CommandPipeline.tee_stdout = _tee_stdout
    for n in ("_set_input", "_close_prev_procs", "_close_proc", "_check_signal",
              "_apply_to_history", "_apply_to_thread_local", "_return_terminal"):
        setattr(P.CommandPipeline, n, lambda self, *a, **k: None)
    S.resume_process = lambda p: None
    S.xj.add_job = lambda info: None
    P.time = _FakeTime
    orig_bool = P.CommandPipeline.__bool__
    if not getattr(orig_bool, "_vf_wrapped", False):
        def __bool__(self):
            return bool(orig_bool(self))
        __bool__._vf_wrapped = True
        P.CommandPipeline.__bool__ = __bool__


NL = 6  # max number of chain operands
NAMES = [f"{k}{i}" for k in "cip" for i in range(NL)] + ["zz"]


def _install_aliases():
    for n in NAMES:
        def fn(args, _n=n):
            return 0
        XSH.aliases[n] = fn


install_stubs()
_install_aliases()

# ----------------------------------------------------------------------------
# program generation
# ----------------------------------------------------------------------------
FORMS = ("bare", "hid", "unc", "out", "obj", "inj", "pipe")
FLAVOURS = ("b", "p")  # b: not valid Python text ("c0 x"), p: valid Python text ("c0 -x")
DECOS = ("", "raise", "ignore")


class Leaf:
    def __init__(self, i, form="bare", flav="b", deco=""):
        self.i, self.form, self.flav, self.deco = i, form, flav, deco

    def src(self):
        i = self.i
        arg = "x" if self.flav == "b" else "-x"
        d = {"": "", "raise": "@error_raise ", "ignore": "@error_ignore "}[self.deco]
        core = f"{d}c{i} {arg}"
        if self.form == "bare":
            return core
        if self.form == "hid":
            return f"![{core}]"
        if self.form == "unc":
            return f"$[{core}]"
        if self.form == "out":
            return f"$({core})"
        if self.form == "obj":
            return f"!({core})"
        if self.form == "inj":
            return f"{d}c{i} @$(i{i} y)"
        if self.form == "pipe":
            return f"p{i} y | {core}"
        raise ValueError(self.form)

    def desc(self):
        return (self.i, self.form, self.flav, self.deco)


class Op:
    def __init__(self, op, kids, spell="word", paren=False):
        self.op, self.kids, self.spell, self.paren = op, kids, spell, paren

    def src(self):
        tok = {("and", "word"): " and ", ("or", "word"): " or ",
               ("and", "sym"): " && ", ("or", "sym"): " || "}[(self.op, self.spell)]
        s = tok.join(k.src() for k in self.kids)
        return f"({s})" if self.paren else s

    def desc(self):
        return (self.op, self.spell, [k.desc() for k in self.kids])


def _shapes(n, spell):
    """every and/or tree over n leaves in order (binary nesting via parentheses + flat)."""
    if n == 1:
        yield lambda leaves: leaves[0]
        return
    if n == 2:
        for op in ("and", "or"):
            yield (lambda op: lambda lv: Op(op, [lv[0], lv[1]], spell))(op)
        return
    if n == 3:
        for o1 in ("and", "or"):
            for o2 in ("and", "or"):
                # natural precedence, no parentheses: a o1 b o2 c
                yield (lambda o1, o2: lambda lv: _natural([lv[0], lv[1], lv[2]], [o1, o2], spell))(o1, o2)
                # explicit grouping to the right: a o1 (b o2 c)
                yield (lambda o1, o2: lambda lv: Op(o1, [lv[0], Op(o2, [lv[1], lv[2]], spell, paren=True)], spell))(o1, o2)
                # explicit grouping to the left: (a o1 b) o2 c
                yield (lambda o1, o2: lambda lv: Op(o2, [Op(o1, [lv[0], lv[1]], spell, paren=True), lv[2]], spell))(o1, o2)
        return
    if n == 4:
        for ops in itertools.product(("and", "or"), repeat=3):
            yield (lambda ops: lambda lv: _natural(list(lv), list(ops), spell))(ops)
        return


def _natural(leaves, ops, spell):
    """Python precedence: 'and' binds tighter than 'or'; flat n-ary nodes."""
    groups = [[leaves[0]]]
    for op, leaf in zip(ops, leaves[1:]):
        if op == "and":
            groups[-1].append(leaf)
        else:
            groups.append([leaf])
    ands = [g[0] if len(g) == 1 else Op("and", g, spell) for g in groups]
    return ands[0] if len(ands) == 1 else Op("or", ands, spell)


_LEAF_VARIANTS_FULL = (
    [("bare", "b", ""), ("bare", "p", ""), ("hid", "b", ""), ("unc", "b", ""), ("out", "b", ""),
     ("obj", "b", ""), ("inj", "b", ""), ("pipe", "b", ""),
     ("bare", "b", "raise"), ("bare", "b", "ignore"), ("bare", "p", "raise"), ("bare", "p", "ignore"),
     ("hid", "b", "ignore"), ("obj", "b", "raise"), ("pipe", "b", "ignore"), ("out", "b", "ignore"),
     ("unc", "b", "ignore"), ("unc", "b", "raise"), ("out", "b", "raise"), ("inj", "b", "ignore"), ("obj", "b", "ignore")]
)
_LEAF_VARIANTS_CORE = _LEAF_VARIANTS_FULL[:10]


def gen_programs(tier):
    progs = []
    seen = set()

    def add(tree):
        src = tree.src() + "\nzz\n"
        if src in seen:
            return
        seen.add(src)
        progs.append((src, tree))

    # 1 leaf: every variant
    for v in _LEAF_VARIANTS_FULL:
        add(Leaf(0, *v))
    # 2 leaves: every pair of core variants (full variants in thorough), both spellings
    two = _LEAF_VARIANTS_FULL if tier == "thorough" else _LEAF_VARIANTS_CORE
    for spell in ("sym", "word"):
        for mk in _shapes(2, spell):
            for v0 in two:
                for v1 in two:
                    if spell == "word" and not (v0 in _LEAF_VARIANTS_CORE[:3] and v1 in _LEAF_VARIANTS_CORE[:3]):
                        continue
                    add(mk([Leaf(0, *v0), Leaf(1, *v1)]))
    # 3 leaves: every shape; one leaf varied at a time, plus all-'p'
    for mk in _shapes(3, "sym"):
        add(mk([Leaf(0), Leaf(1), Leaf(2)]))
        add(mk([Leaf(0, "bare", "p"), Leaf(1, "bare", "p"), Leaf(2, "bare", "p")]))
        for pos in range(3):
            for v in (two if tier == "thorough" else _LEAF_VARIANTS_CORE):
                lv = [Leaf(0), Leaf(1), Leaf(2)]
                lv[pos] = Leaf(pos, *v)
                add(mk(lv))
    # long natural-precedence chains (and-groups joined by or), bare operands
    for n in ((4, 5) if tier == "quick" else (4, 5, 6)):
        for ops in itertools.product(("and", "or"), repeat=n - 1):
            add(_natural([Leaf(i) for i in range(n)], list(ops), "sym"))
    # explicit left groups: (a op b) op (c op d) is rejected by the parser heuristics, (a op b) op c op d is not
    for o1, o2, o3 in itertools.product(("and", "or"), repeat=3):
        add(_natural([Op(o1, [Leaf(0), Leaf(1)], "sym", paren=True), Leaf(2), Leaf(3)], [o2, o3], "sym"))
    if tier == "thorough":
        for mk in _shapes(4, "sym"):
            add(mk([Leaf(i) for i in range(4)]))
            for pos in range(4):
                for v in _LEAF_VARIANTS_CORE:
                    lv = [Leaf(i) for i in range(4)]
                    lv[pos] = Leaf(pos, *v)
                    add(mk(lv))
    # interleave, so that every contiguous chunk (= partition) mixes all program families: the programs the
    # parser rejects cluster by shape and would otherwise fill a whole partition (vacuous twin)
    n = _NCHUNKS[tier]
    return [progs[j] for r in range(n) for j in range(r, len(progs), n)]


_NCHUNKS = {"quick": 32, "thorough": 64}
_COMPILED = {}
REJECTED = {}


def compiled(tier):
    if tier in _COMPILED:
        return _COMPILED[tier]
    out = []
    for src, tree in gen_programs(tier):
        ctx = {}
        try:
            code = XSH.execer.compile(src, mode="exec", glbs=ctx, locs=None, filename="<vf-chain>")
        except SyntaxError:
            # rejected by the implicit-subprocess heuristics: C03's concern, not C05's
            REJECTED.setdefault(tier, []).append(src)
            code = None
        out.append((src, tree, code))
    _COMPILED[tier] = out
    return out


# ----------------------------------------------------------------------------
# reference truth table
# ----------------------------------------------------------------------------
class _Raised(Exception):
    def __init__(self, name, rc):
        self.name, self.rc = name, rc


def reference(tree, codes, outs, f_raise, f_cmd, value_truth=False, lazy_final=False):
    """-> (log, raised (name, rc) or None).

    value_truth=False is the property's table (short-circuit over exit codes).
    value_truth=True is the alternative in which a consumed $[...] operand is
    always false and a consumed $(...) operand is true iff it produced output
    (used only to recognise the listed known finding precisely).
    lazy_final: a !(...) result that is the value of the whole chain is not
    inspected (its failure is then not 'consumed' under CMD_RAISE_ERROR)."""
    log: List[str] = []
    state = {"last": None}

    def run_cmd(name, deco, form):
        log.append(name)
        rc = codes[name]
        if rc != 0:
            if deco == "raise":
                raise _Raised(name, rc)
            if f_cmd and deco != "ignore":
                raise _Raised(name, rc)
        return rc

    def ev(node, consumed):
        if isinstance(node, Leaf):
            i = node.i
            if node.form == "inj":
                rc_in = run_cmd(f"i{i}", "", "out")
                # a failing nested capture raises at once when chain raising is on
                if rc_in != 0 and f_raise:
                    raise _Raised(f"i{i}", rc_in)
            if node.form == "pipe":
                log.append(f"p{i}")
            if node.form == "obj" and not consumed:
                # lazily evaluated result nobody looks at
                log.append(f"c{i}")
                state["last"] = (node, None)
                return True
            rc = run_cmd(f"c{i}", node.deco, node.form)
            state["last"] = (node, rc)
            if value_truth and node.form == "unc":
                return False
            if value_truth and node.form == "out":
                return bool(outs[f"c{i}"])
            return rc == 0
        vals = node.kids
        res = None
        for k, kid in enumerate(vals):
            is_last = k == len(vals) - 1
            res = ev(kid, (not is_last) or consumed)
            if node.op == "and" and not res:
                break
            if node.op == "or" and res:
                break
        return res

    raised = None
    try:
        ev(tree, isinstance(tree, Op) and not lazy_final)
        node, rc = state["last"]
        if f_raise and rc is not None and rc != 0 and node.form != "obj" and node.deco != "ignore":
            raise _Raised(f"c{node.i}", rc)
        log.append("zz")
        rcz = codes["zz"]
        if rcz != 0 and (f_raise or f_cmd):
            raise _Raised("zz", rcz)
    except _Raised as r:
        raised = (r.name, r.rc)
    return log, raised


def _truthiness_finding(tree):
    """Operands whose *Python value* (None / output text) rather than exit code
    decides the short-circuit: $[...] and $(...) in a consumed position."""
    found = []

    def walk(node, consumed):
        if isinstance(node, Leaf):
            if consumed and node.form in ("unc", "out"):
                found.append(node.i)
            return
        for k, kid in enumerate(node.kids):
            walk(kid, k < len(node.kids) - 1 or consumed)

    walk(tree, False)
    return found


# ----------------------------------------------------------------------------
# the obligation
# ----------------------------------------------------------------------------
def _set_flags(f_raise, f_cmd):
    env = XSH.env
    env["XONSH_SUBPROC_RAISE_ERROR"] = True if f_raise else False
    env["XONSH_SUBPROC_CMD_RAISE_ERROR"] = True if f_cmd else False


def run_program(code, codes, outs, f_raise, f_cmd):
    LOG.clear()
    CODES.clear()
    CODES.update(codes)
    OUTS.clear()
    OUTS.update(outs)
    _set_flags(f_raise, f_cmd)
    XSH.lastcmd = None
    XSH.exit = None
    raised = None
    try:
        exec(code, {"__name__": "__vf__"})
    except subprocess.CalledProcessError as e:
        raised = (e.cmd, e.returncode)
    got_log = list(LOG)
    return got_log, raised


def ob_chain(tier: str, lo: int, hi: int, prog: int, k0: int, k1: int, k2: int, k3: int, k4: int, k5: int,
             x0: int, x1: int, x2: int, x3: int, kz: int,
             o0: bool, o1: bool, o2: bool, o3: bool,
             f_raise: bool, f_cmd: bool) -> Optional[str]:
    progs = compiled(tier)
    if not (lo <= prog < hi) or prog >= len(progs):
        raise Skip()
    # finite-domain variable: force the case split here (one comparison per
    # candidate) instead of indexing the whole table symbolically
    idx = lo
    while idx < hi - 1 and prog != idx:
        idx += 1
    src, tree, code = progs[idx]
    if code is None:
        raise Skip()
    ks = [k0, k1, k2, k3, k4, k5]
    xs = [x0, x1, x2, x3, 0, 0]
    if kz != 0:
        raise Skip()
    codes = {"zz": 0}
    for i in range(NL):
        codes[f"c{i}"] = ks[i]
        codes[f"i{i}"] = xs[i]
        codes[f"p{i}"] = xs[i]
    outs = {f"c{i}": o for i, o in enumerate([o0, o1, o2, o3, False, False])}
    got_log, got_raised = run_program(code, codes, outs, f_raise, f_cmd)
    got_name = None
    if got_raised is not None:
        got_name = next((a for a in got_raised[0] if not a.startswith("@")), None)
        got_raised = (got_name, got_raised[1])
    exp = reference(tree, codes, outs, f_raise, f_cmd)
    if (got_log, got_raised) == exp:
        return None
    # a !(...) result that is the value of the whole chain may or may not be inspected
    if (got_log, got_raised) == reference(tree, codes, outs, f_raise, f_cmd, lazy_final=True):
        return None
    kind = "log" if got_log != exp[0] else ("raise" if (got_raised is None) != (exp[1] is None) else "raise-origin")
    if _truthiness_finding(tree):
        for lazy in (False, True):
            if (got_log, got_raised) == reference(tree, codes, outs, f_raise, f_cmd, value_truth=True, lazy_final=lazy):
                kind = "truthiness"
    return viol(kind, lambda: (
        f"{src!r} raise={f_raise} cmd_raise={f_cmd} codes={_brief(codes, exp[0], got_log)} "
        f"outs={[n for n in outs if outs[n] and n in exp[0]]}: executed {got_log} raised {got_raised}; "
        f"truth table says executed {exp[0]} raised {exp[1]}"))


def _brief(codes, a, b):
    names = sorted(set(a) | set(b))
    return {n: codes[n] for n in names}


def _chunks(tier, n):
    total = len(gen_programs(tier))
    step = (total + n - 1) // n
    return [dict(tier=tier, lo=i, hi=min(i + step, total)) for i in range(0, total, step)]


# ----------------------------------------------------------------------------
# level-2 replay: real callable aliases, real threads/pipes, no stubs
# ----------------------------------------------------------------------------
_REPLAY_SNIPPET = r'''
import sys, json, subprocess
sys.path.insert(0, "/verif")
from vf.session import load_session
XSH = load_session({"THREAD_SUBPROCS": True})
src, codes, outs, f_raise, f_cmd = json.loads(sys.argv[1])
LOG = []
def mk(n):
    def fn(args):
        LOG.append(n)
        return ("out\n" if outs.get(n) else None, None, codes[n])
    return fn
for n in codes:
    XSH.aliases[n] = mk(n)
XSH.env["XONSH_SUBPROC_RAISE_ERROR"] = bool(f_raise)
XSH.env["XONSH_SUBPROC_CMD_RAISE_ERROR"] = bool(f_cmd)
raised = None
try:
    XSH.execer.exec(src, glbs={}, locs=None)
except subprocess.CalledProcessError as e:
    raised = [list(e.cmd), e.returncode]
print("@@R@@" + json.dumps([LOG, raised]))
'''


def replay_chain(a):
    import json
    import sys

    tier = a["tier"]
    progs = gen_programs(tier)
    src, tree = progs[a["prog"]]
    codes = {"zz": a["kz"]}
    for i in range(NL):
        codes[f"c{i}"] = a[f"k{i}"]
        codes[f"i{i}"] = a.get(f"x{i}", 0)
        codes[f"p{i}"] = a.get(f"x{i}", 0)
    outs = {f"c{i}": a.get(f"o{i}", False) for i in range(NL)}
    p = subprocess.run([sys.executable, "-c", _REPLAY_SNIPPET,
                        json.dumps([src, codes, outs, a["f_raise"], a["f_cmd"]])],
                       capture_output=True, text=True, timeout=120, cwd=os.environ.get("VERIF_REPO", "/repo"))
    i = p.stdout.rfind("@@R@@")
    if i < 0:
        raise RuntimeError("replay child failed: " + p.stderr[-800:])
    got_log, got_raised = json.loads(p.stdout[i + 5:])
    exp_log, exp_raised = reference(tree, codes, outs, a["f_raise"], a["f_cmd"])
    if got_log != exp_log:
        return f"real session executed {got_log}, truth table says {exp_log} for {src!r}"
    if (got_raised is None) != (exp_raised is None):
        return f"real session raised {got_raised}, truth table says {exp_raised} for {src!r}"
    return None


def _region_truthiness(args, v):
    return v.startswith("truthiness:")


OBLIGATIONS = [
    Obligation(
        "chain_truth_table", ob_chain,
        bounds="quick: all 21 one-operand variants, 2-operand chains over 10x10 operand variants, every 3-operand shape with one varied "
               "operand, every natural-precedence chain of 4 and 5 bare operands; thorough: 21x21 variants for 2 operands, "
               "3 operands with every variant, 4 operands with one varied operand, 6-operand natural chains; exit codes unbounded ints",
        pre=["lo <= prog < hi", "kz == 0"],
        parts={"quick": _chunks("quick", _NCHUNKS["quick"]), "thorough": _chunks("thorough", _NCHUNKS["thorough"])},
        timeout={"quick": 240, "thorough": 2400},
        path_timeout=20,
        regions={"C05-operand-truthiness": _region_truthiness},
        replay=replay_chain,
        prepare=lambda tier, part: compiled(tier),
        symbolic="program index in the partition, 10 exit codes, 4 has-output flags, 2 raise flags",
    ),
]
