"""C17 - `xonsh format` never changes what a program means, and is idempotent.

Real code executed: xonsh/formatter/core.py format_source, _Formatter (run, _render_token, _space_between, _source_slice,
_real_end, _fstring_span_reliable, _finalize), _format_comment; xonsh/formatter/cli.py main/_process_one; xonsh's own
parser (Execer.parse) on input and output.
Symbolic: token spans (integers) for _source_slice; finite-domain choices of string-literal bodies, statement pairs,
indentation style and file contents.
"""

from __future__ import annotations

import ast
import os
import shutil
import tempfile
from typing import Optional

from vf.api import Obligation, Skip, concretely, viol
from vf.session import load_session

XSH = load_session()

import xonsh.formatter.cli as FCLI  # noqa: E402
import xonsh.formatter.core as F  # noqa: E402

STUBS = ["none on the decision path (write_back uses real files in a scratch directory that is removed)"]
ASSUMPTIONS = ["meaning = ast.dump (without locations) of xonsh's own parse (phases 1-3, empty context) of the text"]
OUTSIDE = ["programs outside the generated families (whole-program parse equivalence on symbolic text needs the tokenizer and parser in the solver: same wall as C01)"]

OPAQUE_NUMBER_FORMAT = True
import warnings  # noqa: E402

warnings.filterwarnings("ignore", category=SyntaxWarning)


def _pick(pool, i):
    j = 0
    while j < len(pool) - 1 and i != j:
        j += 1
    return pool[j]


def _tree(src):
    t = XSH.execer.parse(src, ctx=set(), mode="exec")
    return None if t is None else ast.dump(t, include_attributes=False)


def _fmt_check(src):
    """-> violation or None for one source text"""
    try:
        before = _tree(src)
    except SyntaxError:
        return None  # not a program xonsh accepts
    try:
        out = F.format_source(src)
    except F.FormatError:
        return None  # rejected with an error, never rewritten: allowed
    except Exception as e:  # noqa: BLE001
        return f"formatter-crash: {src!r}: {type(e).__name__}: {e}"
    try:
        after = _tree(out)
    except SyntaxError as e:
        return f"output-does-not-parse: {src!r} -> {out!r}: {e}"
    if before != after:
        return f"meaning-changed: {src!r} -> {out!r}"
    try:
        out2 = F.format_source(out)
    except Exception as e:  # noqa: BLE001
        return f"not-idempotent: {src!r}: second pass fails {type(e).__name__}"
    if out2 != out:
        return f"not-idempotent: {src!r} -> {out!r} -> {out2!r}"
    if not out.endswith("\n") or out.endswith("\n\n"):
        return f"final-newline: {src!r} -> {out!r}"
    return None


# ----------------------------------------------------------------------------
# 1. _source_slice over symbolic spans
# ----------------------------------------------------------------------------
SRCS = ["ab = 1\n  cd(ef)\nxyz\n", "a\x0cb\ncd = f'{{x}}'\nlast line\n", "é = 'ü'\n\tq\n\n"]


class _Tok:
    def __init__(self, start, end, string=""):
        self.start, self.end, self.string = start, end, string


def ob_source_slice(src_i: int, sl: int, sc: int, el: int, ec: int) -> Optional[str]:
    if not (0 <= src_i < len(SRCS)):
        raise Skip()
    src = SRCS[src_i]
    lines = src.split("\n")
    if not (1 <= sl <= len(lines) and 1 <= el <= len(lines)):
        raise Skip()
    if not (0 <= sc <= len(lines[sl - 1]) and 0 <= ec <= len(lines[el - 1])):
        raise Skip()
    fm = F._Formatter(src)
    got = fm._source_slice(_Tok((sl, sc), (el, ec)))
    # reference: absolute offsets into the text, lines counted by "\\n" only (as the tokenizer does)
    off = [0]
    for ln in lines:
        off.append(off[-1] + len(ln) + 1)
    a, b = off[sl - 1] + sc, off[el - 1] + ec
    want = src[a:b] if a <= b else None
    if got != want:
        return viol("source-slice", lambda: f"source {src!r} span ({sl},{sc})-({el},{ec}): _source_slice = {got!r}, the text there is {want!r}")
    return None


# ----------------------------------------------------------------------------
# 2. string literal bodies survive (format_source + parse)
# ----------------------------------------------------------------------------
SYM = ["a", " ", "\t", "\\", "'"]


def ob_string_body(l1: int, a0: int, a1: int, a2: int, l2: int, b0: int, b1: int, style: int) -> Optional[str]:
    if not (0 <= l1 <= 3 and 0 <= l2 <= 2 and 0 <= style < 3):
        raise Skip()
    A, B = [a0, a1, a2], [b0, b1]
    for i in range(3):
        if i < l1:
            if not (0 <= A[i] < len(SYM)):
                raise Skip()
        elif A[i] != 0:
            raise Skip()
    for i in range(2):
        if i < l2:
            if not (0 <= B[i] < len(SYM)):
                raise Skip()
        elif B[i] != 0:
            raise Skip()
    body = "".join(_pick(SYM, A[i]) for i in range(l1)) + "\n" + "".join(_pick(SYM, B[i]) for i in range(l2))
    pre = _pick(['x = """', 'echo """', 'f(r"""'], style)
    post = _pick(['"""\n', '"""\n', '""")\n'], style)
    src = pre + body + post

    def run():
        r = _fmt_check(src)
        if r and r.split(":")[0] in ("meaning-changed", "output-does-not-parse") and any(ln.endswith((" ", "\t")) for ln in body.split("\n")[:-1]):
            return "trailing-space-in-multiline-string-stripped:" + r.split(":", 1)[1]
        return r

    r = concretely(run)
    if r:
        k, rest = r.split(":", 1)
        return viol(k, lambda: rest.strip())
    return None


# ----------------------------------------------------------------------------
# 3. statement families
# ----------------------------------------------------------------------------
STMTS = [
    "x=1", "y = x+  2", "def f(a,b=2):\n    return a", "if x :\n    pass", "for i in range(3):\n  print(i)", "echo hi", "ls -la /tmp",
    "echo $HOME", "echo @(x)", "z = $(echo a)", "![ls] && ![pwd]", "# comment", "x = 1  # trailing", "#def foo():", "l = [1,\n     2]",
    "d = {'a':1}", "s = 'a  b'", "t = f'{x}  {y!r}'", "lambda q=1: q", "a[1:2]", "print(1, end='')", "class C:\n\tv = 1", "echo 'a b'  c",
    "cd ..", "git commit -m 'msg'", "x = (1 +\n  2)", "import os, sys", "from os import (path,\n  sep)", "aliases['ll'] = 'ls -l'",
    "with open('f') as fh:\n        pass", "try:\n    pass\nexcept Exception as e:\n    pass", "echo a > out.txt", "ls | wc -l", "$PATH.append('/x')",
    "echo ${'HOME'}", "x = -1", "f(*a, **k)", "a if b else c", "x = y = 0", "return_value = not x", "@(cmd) arg", "echo hi &", "print(f'{{x}}')",
    # macros: the raw text handed to the macro is part of the tree
    "timeit!(r = !(ls   -la);   r.rtn   ==   0)", "f!(x  [1,  2],  y)", "echo! a   b  'c'",
    'f!(x = """a\nb"""   + 1,  y)',  # a token spanning lines inside a macro body
]


def ob_statements(i: int, j: int, sep: int, k: int = -1) -> Optional[str]:
    if not (0 <= i < len(STMTS) and 0 <= j < len(STMTS) and 0 <= sep < 3 and -1 <= k < len(STMTS)):
        raise Skip()
    a, b = _pick(STMTS, i), _pick(STMTS, j)
    s = _pick(["\n", "\n\n\n\n", "\n# c\n"], sep)
    src = a + s + b + "\n"
    if k >= 0:
        src = src + _pick(STMTS, k) + "\n"
    r = concretely(_fmt_check, src)
    if r:
        k, rest = r.split(":", 1)
        return viol(k, lambda: rest.strip())
    return None


# ----------------------------------------------------------------------------
# 3b. single statements of further shapes (subprocess words holding operator characters, nested and block macros,
#     f-string format specs, a continued command line)
# ----------------------------------------------------------------------------
SHAPES = [
    # (class, text)
    ("subproc-operator-chars", "pip install foo==1.0"), ("subproc-operator-chars", "echo a,b"), ("subproc-operator-chars", "echo a:b"),
    ("subproc-operator-chars", "ls | grep --color=auto x"), ("subproc-operator-chars", "ls /tmp --x=1"),
    ("fstring-spec", 'x = f"{y:{w}}"'), ("fstring-spec", 'x = f"{y = }"'),
    ("nested-or-block-macro", "f!(a  g!(b)  c  d)"), ("nested-or-block-macro", "with! ctx:\n    a   b"),
    ("continued-command", "echo a\\\nb"),
    ("fine", "g!(  q  )"), ("fine", "echo a=b"), ("fine", "x = f'{y:>10}'"), ("fine", "f!(a,  b)\ny=2"), ("fine", "echo 'a==b'  c"),
]


def ob_shapes(i: int) -> Optional[str]:
    if not (0 <= i < len(SHAPES)):
        raise Skip()
    cls, text = _pick(SHAPES, i)
    r = concretely(_fmt_check, text + "\n")
    if r:
        k, rest = r.split(":", 1)
        return viol(k + "-" + cls, lambda: rest.strip())
    return None


def _region_cls(cls):
    return lambda args, v: v.startswith("meaning-changed-" + cls)


# ----------------------------------------------------------------------------
# 4. write-back through the CLI
# ----------------------------------------------------------------------------
FILES = ["x=1\n", "x=1\ny =  'é'\n", "# ü\nz=[1,2]\n\n\n\n", "s='日本語'\nprint( s )\n", "echo 'é'   1\nx=2\n", "x = 1\n", "a=1\nb = '😀😀😀'\nc=3\n"]


def _write_back(i):
    d = tempfile.mkdtemp(prefix="vf_c17_")
    try:
        p = os.path.join(d, "prog.xsh")
        with open(p, "w", encoding="utf-8") as fh:
            fh.write(FILES[i])
        want = F.format_source(FILES[i])
        try:
            FCLI.main(["-q", p])
        except SystemExit:
            pass
        with open(p, "rb") as fh:
            raw = fh.read()
        try:
            got = raw.decode("utf-8")
        except UnicodeDecodeError:
            return f"file-damaged: {FILES[i]!r}: the rewritten file is not valid UTF-8 any more"
        if got != want:
            return f"file-damaged: {FILES[i]!r}: file now holds {got!r}, format_source gives {want!r}"
        rc = None
        try:
            rc = FCLI.main(["-q", "--check", p])
        except SystemExit as e:
            rc = e.code
        if rc not in (0, None):
            return f"not-idempotent: {FILES[i]!r}: --check right after formatting reports changes (exit {rc})"
        return None
    finally:
        shutil.rmtree(d, ignore_errors=True)


def ob_write_back(i: int) -> Optional[str]:
    if not (0 <= i < len(FILES)):
        raise Skip()
    r = concretely(_write_back, _pick(list(range(len(FILES))), i))
    if r:
        k, rest = r.split(":", 1)
        return viol(k, lambda: rest.strip())
    return None


def _region_trailing(args, v):
    return v.startswith("trailing-space-in-multiline-string-stripped")


NSTM = len(STMTS)
OBLIGATIONS = [
    Obligation("source_slice", ob_source_slice,
               bounds="three sources (one with a form feed inside a line, one with non-ASCII and a tab); every token span (start/end line and column symbolic)",
               pre=["1 <= sl <= 5", "1 <= el <= 5", "0 <= sc <= 16", "0 <= ec <= 16"], parts={"quick": [dict(src_i=k) for k in range(len(SRCS))]},
               timeout={"quick": 240, "thorough": 600}, symbolic="four integers"),
    Obligation("string_bodies", ob_string_body,
               bounds="triple-quoted literal (assignment, command argument, raw in a call) whose body is <=3 symbols, newline, <=2 symbols over "
                      "{a, space, tab, backslash, quote}: format_source then parse input and output with xonsh's parser, idempotence, final newline",
               pre=["0 <= l1 <= 3", "0 <= l2 <= 2"] + [f"0 <= {v} < 5" for v in ("a0", "a1", "a2", "b0", "b1")],
               parts={"quick": [dict(style=s, l1=x) for s in range(3) for x in range(4)]}, timeout={"quick": 240, "thorough": 600},
               regions={"C17-trailing-space-in-multiline-string": _region_trailing}, symbolic="symbol index per position"),
    Obligation("statements", ob_statements,
               bounds=f"every ordered pair (thorough: also every ordered triple) of {NSTM} statements (Python, subprocess lines, function and alias macros, comments, continuation lines, tab / 2 / 4 / 8 "
                      "space indentation, f-strings) joined by one newline, a blank-line run or a comment",
               pre=[f"0 <= i < {NSTM}", f"0 <= j < {NSTM}", f"-1 <= k < {NSTM}"],
               parts={"quick": [dict(sep=s, k=-1) for s in range(3)],
                      "thorough": [dict(sep=s, k=-1) for s in range(3)] + [dict(sep=0, i=a) for a in range(NSTM)]},
               timeout={"quick": 240, "thorough": 900},
               symbolic="statement indices"),
    Obligation("single_shapes", ob_shapes,
               bounds=f"{len(SHAPES)} single statements: subprocess words holding == , : = characters, f-string format specs and debug text, nested function "
                      "macros and a block macro, a command continued over a backslash, plus 5 neighbouring shapes that must stay intact",
               pre=["0 <= i < 20"], timeout={"quick": 120, "thorough": 120},
               regions={"C17-subproc-operator-chars-spaced": _region_cls("subproc-operator-chars"), "C17-fstring-spec-respaced": _region_cls("fstring-spec"),
                        "C17-nested-or-block-macro-body-respaced": _region_cls("nested-or-block-macro"),
                        "C17-continued-command-reindented": _region_cls("continued-command")},
               symbolic="shape index"),
    Obligation("write_back", ob_write_back, bounds=f"{len(FILES)} files (ASCII and multi-byte UTF-8, shrinking and growing) rewritten in place by the CLI",
               pre=["0 <= i < 7"], timeout={"quick": 120, "thorough": 120}, symbolic="file index"),
]
