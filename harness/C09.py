"""C09 - running a command leaves the shell session as it found it (fd-ownership kernel).

Real code executed: xonsh/procs/pipes.py PipeChannel (all methods); xonsh/procs/specs.py SubprocSpec.close, safe_close,
cmds_to_specs incl. its `except BaseException` branch, _update_last_spec/_make_last_spec_captured (capture pipes);
xonsh/procs/pipelines.py CommandPipeline.__init__ failure branch, end/_end, _close_prev_procs, _close_proc.
A model fd table (POSIX lowest-free allocation) records leaks and double closes.
"""

from __future__ import annotations

import io
from typing import List, Optional

from vf.api import Obligation, Skip, concretely, gappy, viol
from vf.session import load_session

XSH = load_session({"THREAD_SUBPROCS": True})

import xonsh.procs.pipelines as P  # noqa: E402
import xonsh.procs.pipes as PP  # noqa: E402
import xonsh.procs.specs as S  # noqa: E402
import xonsh.tools as xt  # noqa: E402

STUBS = [
    "os.pipe / os.close / open(fd, closefd=False) as seen from xonsh.procs.pipes -> model fd table with POSIX lowest-free allocation; "
    "PipeChannel.from_pty -> from_pipe; _safe_pipe_properties -> no-op; safe_open -> model file owning one model fd",
    "signal (as seen from xonsh.procs.posix) -> handler table; subprocess.Popen -> raises the chosen exception (spawn_failure_signals only)",
    "sigint_after_pipeline: signal (as seen from xonsh.procs.proxies) -> handler table with a recorded pthread_kill; the callable-alias stage is a model "
    "object carrying the real ProcProxyThread.wait/_signal_int/_restore_sigint (no OS thread); iterraw's tail -> its three calls in source order",
    "SubprocSpec.run -> model process (or raises at the chosen stage; its wait() records whether the shell still holds the read end of its output pipe); iterraw/tee_stdout -> empty; signal/terminal/history plumbing of "
    "CommandPipeline -> no-op; jobs.add_job -> no-op",
]
ASSUMPTIONS = ["fd numbers are recycled lowest-first, so a second close of an already closed number may hit somebody else's descriptor"]
OUTSIDE = ["un-reaped children, helper threads, terminal ownership, sys.std*, cwd, signal handlers of external stages and of stages interrupted mid-run (OS state)",
           "descriptors released only by garbage collection (PipeChannel.__del__) count as leaked here"]

OPAQUE_NUMBER_FORMAT = True


class FDTable:
    def __init__(self):
        self.open = set([0, 1, 2])
        self.double_close: List[int] = []
        self.owner = {}

    def alloc(self, who):
        n = 3
        while n in self.open:
            n += 1
        self.open.add(n)
        self.owner[n] = who
        return n

    def pipe(self):
        return self.alloc("pipe-r"), self.alloc("pipe-w")

    def close(self, fd):
        if fd not in self.open:
            self.double_close.append(fd)
            raise OSError(9, "Bad file descriptor")
        self.open.discard(fd)


FDS = FDTable()


class Wrapper(io.IOBase):
    """non-owning wrapper from open(fd, closefd=False)"""

    def __init__(self, fd):
        self.fd = fd
        self._closed = False

    def close(self):
        self._closed = True

    @property
    def closed(self):
        return self._closed

    def fileno(self):
        return self.fd


class OwnedFile(io.IOBase):
    def __init__(self, loc, mode):
        self.fd = FDS.alloc("file " + loc)
        self._closed = False

    def close(self):
        if not self._closed:
            self._closed = True
            FDS.close(self.fd)

    @property
    def closed(self):
        return self._closed


class _OS:
    @staticmethod
    def pipe():
        return FDS.pipe()

    @staticmethod
    def close(fd):
        FDS.close(fd)


def _model_open(fd, mode="r", buffering=-1, closefd=True, **k):
    if fd not in FDS.open:
        raise OSError(9, "Bad file descriptor")
    return Wrapper(fd)


class ModelProc:
    def __init__(self, spec):
        self.spec = spec
        self.returncode = 0
        self.pid = None
        self.stdin, self.stdout, self.stderr = spec.stdin, spec.stdout, spec.stderr
        self.prevs_are_closed = False

    def poll(self):
        return 0

    def wait(self, timeout=None):
        # a producer that is still writing only ends (SIGPIPE) once every read end of its output pipe is closed - the
        # shell's own copy included: waiting for it while the shell still holds the read end stalls until the timeout
        for ch in getattr(self.spec, "pipe_channels", ()):
            if getattr(ch, "read_fd", None) is not None:
                WAITED_WITH_READER_OPEN.append(self.spec.pipeline_index)
        return 0


WAITED_WITH_READER_OPEN: List = []
FAIL_AT = [-1]
FAIL_EXC = [Exception]


def _spec_run(self, *, pipeline_group=None):
    if self.pipeline_index == FAIL_AT[0]:
        raise FAIL_EXC[0]("model: cannot start stage %d" % self.pipeline_index)
    return ModelProc(self)


def _install():
    global FDS
    FDS = FDTable()
    PP.os = gappy(_OS, "os")
    PP.open = _model_open
    PP.PipeChannel.from_pty = PP.PipeChannel.from_pipe
    S._safe_pipe_properties = lambda *a, **k: None
    S.safe_open = lambda loc, mode, *a, **k: OwnedFile(loc, mode)
    S.locate_executable = lambda *a, **k: None
    S.SubprocSpec.run = _spec_run
    S.resume_process = lambda p: None
    S.xj.add_job = lambda info: None
    P.CommandPipeline.iterraw = lambda self, *a, **k: iter(())
    P.CommandPipeline.tee_stdout = lambda self, *a, **k: iter(())
    for n in ("_set_input", "_check_signal", "_apply_to_history", "_apply_to_thread_local", "_return_terminal", "_raise_subproc_error"):
        setattr(P.CommandPipeline, n, lambda self, *a, **k: None)
    P.xt.print_exception = lambda *a, **k: None
    P.safe_fdclose = lambda handle, cache=None: handle.close() if hasattr(handle, "close") else None
    XSH.stdout_uncaptured = None
    XSH.stderr_uncaptured = None
    for n in ("c0", "c1", "c2"):
        def fn(args, stdin=None, _n=n):
            return 0
        XSH.aliases[n] = fn

    def un(args, stdin=None):
        return 0

    un.__xonsh_threadable__ = False
    XSH.aliases["un"] = un


def _pick(pool, i):
    j = 0
    while j < len(pool) - 1 and i != j:
        j += 1
    return pool[j]


# ----------------------------------------------------------------------------
# 1. PipeChannel state machine (symbolic op sequence)
# ----------------------------------------------------------------------------
CH_OPS = ["open_writer", "open_reader", "close_writer", "close_reader", "close", "other_pipe"]


def ob_channel(n: int, o0: int, o1: int, o2: int, o3: int, o4: int, o5: int) -> Optional[str]:
    ops_i = [o0, o1, o2, o3, o4, o5]
    for i in range(6):
        if i < n:
            if not (0 <= ops_i[i] < len(CH_OPS)):
                raise Skip()
        elif ops_i[i] != 0:
            raise Skip()
    ops = [_pick(CH_OPS, ops_i[i]) for i in range(n)]

    def run():
        _install()
        ch = PP.PipeChannel.from_pipe()
        r0, w0 = ch.read_fd, ch.write_fd
        others = []
        r_closed = w_closed = False
        for op in ops:
            try:
                if op == "open_writer":
                    ch.open_writer("w")
                    if w_closed:
                        return f"use-after-close: {ops}: open_writer succeeded after the write end was closed"
                elif op == "open_reader":
                    ch.open_reader("r")
                    if r_closed:
                        return f"use-after-close: {ops}: open_reader succeeded after the read end was closed"
                elif op == "close_writer":
                    ch.close_writer()
                    w_closed = True
                elif op == "close_reader":
                    ch.close_reader()
                    r_closed = True
                elif op == "close":
                    ch.close()
                    r_closed = w_closed = True
                else:
                    others.append(PP.PipeChannel.from_pipe())  # somebody else's pipe: may recycle the numbers
            except OSError:
                if (op == "open_writer" and not w_closed) or (op == "open_reader" and not r_closed):
                    return f"spurious-error: {ops}: {op} failed on an open end"
            if FDS.double_close:
                return f"double-close: {ops}: fd {FDS.double_close} closed twice (may hit a recycled descriptor)"
            for o in others:
                if o.read_fd not in FDS.open or o.write_fd not in FDS.open:
                    return f"foreign-close: {ops}: closing this channel closed another owner's descriptor"
        ch.close()
        ch.close()
        if FDS.double_close:
            return f"double-close: {ops}: close() is not idempotent ({FDS.double_close})"
        for o in others:
            if o.read_fd not in FDS.open or o.write_fd not in FDS.open:
                return f"foreign-close: {ops}: close() closed another owner's descriptor"
            o.close()
        if FDS.open != {0, 1, 2}:
            return f"leak: {ops}: descriptors {sorted(FDS.open - {0, 1, 2})} still open after close()"
        return None

    r = concretely(run)
    if r:
        k, rest = r.split(":", 1)
        return viol(k, lambda: rest.strip())
    return None


# ----------------------------------------------------------------------------
# 2. cmds_to_specs failure paths; 3. CommandPipeline start failure
# ----------------------------------------------------------------------------
CAPTURES = [False, "stdout", "object", "hiddenobject"]
FAILS = ["none", "conflict", "sentinel", "unthreadable", "build_raises", "run_raises", "run_raises_base"]


def _scenario(nstages, cap, fail, at, redirect_in):
    _install()
    cmds = []
    for k in range(nstages):
        cmd = ["un" if (fail == "unthreadable" and k == at) else f"c{k}", "x"]
        if redirect_in and k == 0:
            cmd.append(("<", "inp"))
        if fail == "conflict" and k == at:
            cmd += [(">", "f1"), ("o>", "f2")]
        if fail == "sentinel" and k == at and k == nstages - 1:
            cmd.append(("e>p",))
        cmds.append(cmd)
        if k < nstages - 1:
            cmds.append("|")
    FAIL_AT[0] = at if fail in ("run_raises", "run_raises_base") else -1
    FAIL_EXC[0] = KeyboardInterrupt if fail == "run_raises_base" else OSError
    orig_build = S.SubprocSpec.build
    if fail == "build_raises":
        count = [0]

        def build(cmd, **kw):
            if count[0] == at:
                raise xt.XonshError("model: cannot build stage")
            count[0] += 1
            return orig_build(cmd, **kw)

        S.SubprocSpec.build = staticmethod(build)
    tag = f"{cmds} captured={cap!r} fault={fail}@{at}"
    del WAITED_WITH_READER_OPEN[:]
    before = set(FDS.open)
    cp = None
    try:
        try:
            specs = S.cmds_to_specs(list(cmds), captured=cap)
        except (xt.XonshError, Exception):  # noqa: BLE001
            specs = None
        if specs is not None:
            try:
                cp = P.CommandPipeline(specs) if cap != "hiddenobject" else P.HiddenCommandPipeline(specs)
                cp.end()
            except KeyboardInterrupt:
                # Ctrl-C while starting: the caller's handler still has the pipeline object
                if cp is not None:
                    cp.end()
                else:
                    for s in specs:
                        s.close()
    finally:
        S.SubprocSpec.build = orig_build
    if FDS.double_close:
        return f"double-close: {tag}: fd {FDS.double_close} closed twice"
    if WAITED_WITH_READER_OPEN:
        return (f"producer-waited-with-reader-open: {tag}: stage(s) {sorted(set(WAITED_WITH_READER_OPEN))} were waited for while the shell still held the read "
                f"end of their output pipe (an external producer that is still writing cannot get SIGPIPE: the wait runs into its timeout and the child is left behind)")
    leaked = sorted(FDS.open - before)
    if leaked:
        kind = "leak"
        if fail in ("run_raises",) and 0 < at and nstages >= 2:
            kind = "leak-started-stage-before-failing-one"
        return f"{kind}: {tag}: descriptors {[(fd, FDS.owner.get(fd)) for fd in leaked]} are still open afterwards"
    return None


def ob_failure(nstages: int, cap_i: int, fail_i: int, at: int, redirect_in: bool) -> Optional[str]:
    if not (1 <= nstages <= 3 and 0 <= cap_i < len(CAPTURES) and 0 <= fail_i < len(FAILS) and 0 <= at < nstages):
        raise Skip()
    fail = _pick(FAILS, fail_i)
    if fail == "none" and at != 0:
        raise Skip()
    if fail == "unthreadable" and nstages < 2:
        raise Skip()
    r = concretely(_scenario, _pick([1, 2, 3], nstages - 1), _pick(CAPTURES, cap_i), fail, _pick([0, 1, 2], at), True if redirect_in else False)
    if r:
        k, rest = r.split(":", 1)
        return viol(k, lambda: rest.strip())
    return None


# ----------------------------------------------------------------------------
# 4. signal handlers are put back when a captured command cannot be spawned
# ----------------------------------------------------------------------------
SPAWN_ERRORS = [OSError, FileNotFoundError, PermissionError, ValueError, UnicodeEncodeError, TypeError, MemoryError]


class _Signal:
    SIGINT, SIGTSTP, SIGQUIT, SIGWINCH, SIGBREAK = 2, 20, 3, 28, 21
    SIG_DFL, SIG_IGN = 0, 1

    def __init__(self):
        self.table = {2: "shell-int", 20: "shell-tstp", 3: "shell-quit", 28: "shell-winch"}

    def signal(self, signum, handler):
        old = self.table.get(signum, 0)
        self.table[signum] = handler
        return old

    def getsignal(self, signum):
        return self.table.get(signum, 0)


def _spawn_failure(exc_i):
    import xonsh.procs.posix as PX

    sig = _Signal()
    saved = (PX.signal, PX.subprocess, PX.xt.on_main_thread)
    exc = SPAWN_ERRORS[exc_i]

    class _Sub:
        PIPE, STDOUT = -1, -2

        @staticmethod
        def Popen(*a, **k):
            if exc is UnicodeEncodeError:
                raise UnicodeEncodeError("utf-8", "\udc80", 0, 1, "surrogates not allowed")
            raise exc("model: cannot spawn")

    PX.signal = sig
    PX.subprocess = _Sub
    PX.xt.on_main_thread = lambda: True
    PX.PopenThread._disable_suspend_keybind = lambda self: None
    PX.PopenThread._set_pty_size = lambda self: None
    before = dict(sig.table)
    try:
        try:
            PX.PopenThread(["cmd"], stdin=None, stdout=None, stderr=None)
            return "spawn: model Popen did not raise"
        except BaseException:  # noqa: BLE001
            pass
    finally:
        PX.signal, PX.subprocess, PX.xt.on_main_thread = saved
    if sig.table != before:
        changed = {k: (before.get(k), getattr(v, "__name__", v)) for k, v in sig.table.items() if before.get(k) != v}
        return f"signal-handlers-not-restored: spawning a captured command failed with {exc.__name__}: handlers {changed} stay bound to the dead thread object"
    return None


def ob_spawn_failure(exc_i: int) -> Optional[str]:
    if not (0 <= exc_i < len(SPAWN_ERRORS)):
        raise Skip()
    r = concretely(_spawn_failure, _pick(list(range(len(SPAWN_ERRORS))), exc_i))
    if r:
        k, rest = r.split(":", 1)
        return viol(k, lambda: rest.strip())
    return None


# ----------------------------------------------------------------------------
# 5. Ctrl-C still reaches the shell after a pipeline with callable-alias stages
# ----------------------------------------------------------------------------
def _sigint_after(kinds, cap):
    """kinds: per stage 'alias' (ProcProxyThread signal discipline) or 'proc' (no handler of its own).
    Real: CommandPipeline.__init__/end/_end/_close_prev_procs/_close_proc, ProcProxyThread.wait/_signal_int/_restore_sigint.
    Model: the alias stage object (no OS thread; finished, joinable), the signal table, the tail of iterraw as its three calls."""
    import xonsh.procs.proxies as PR

    _install()
    sig = _Signal()
    reached: List = []
    redelivered = [0]

    def shell_handler(signum, frame):
        reached.append(signum)

    sig.table[2] = shell_handler

    def pthread_kill(ident, signum):
        redelivered[0] += 1

    sig.pthread_kill = pthread_kill

    class AliasStage(ModelProc):
        _signal_int = PR.ProcProxyThread._signal_int
        _restore_sigint = PR.ProcProxyThread._restore_sigint
        wait = PR.ProcProxyThread.wait

        def __init__(self, spec):
            super().__init__(spec)
            self._interrupted = False
            self.old_int_handler = None
            self.old_break_handler = None
            # what ProcProxyThread.__init__ does on the main thread before starting the thread
            if PR.xt.on_main_thread():
                self.old_int_handler = PR.signal.signal(PR.signal.SIGINT, self._signal_int)

        def _restore_sigbreak(self):
            pass

        def join(self, timeout=None):
            pass

        def is_alive(self):
            return False

    def spec_run(self, *, pipeline_group=None):
        return AliasStage(self) if kinds[self.pipeline_index] == "alias" else ModelProc(self)

    def iterraw_tail(self, *a, **k):
        # the order in which CommandPipeline.iterraw finishes: upstream stages closed, then the last stage waited for
        self._close_prev_procs()
        self.proc.prevs_are_closed = True
        self.proc.wait()
        return iter(())

    saved = (PR.signal, PR.xt.on_main_thread, S.SubprocSpec.run, P.CommandPipeline.iterraw, P.CommandPipeline.tee_stdout)
    PR.signal = sig
    PR.xt.on_main_thread = lambda: True
    S.SubprocSpec.run = spec_run
    P.CommandPipeline.iterraw = iterraw_tail
    P.CommandPipeline.tee_stdout = iterraw_tail
    cmds = []
    for k in range(len(kinds)):
        cmds.append([f"c{k}", "x"])
        if k < len(kinds) - 1:
            cmds.append("|")
    tag = f"{' | '.join(kinds)} captured={cap!r}"
    try:
        specs = S.cmds_to_specs(list(cmds), captured=cap)
        cp = P.CommandPipeline(specs) if cap != "hiddenobject" else P.HiddenCommandPipeline(specs)
        cp.end()
        # ---- the user presses Ctrl-C at the prompt: does the shell's own handler get the signal? ----
        pending, steps = 1, 0
        while pending and not reached and steps < 8:
            pending -= 1
            steps += 1
            before = redelivered[0]
            h = sig.table[2]
            h(2, None)
            pending += redelivered[0] - before
    finally:
        PR.signal, PR.xt.on_main_thread, S.SubprocSpec.run, P.CommandPipeline.iterraw, P.CommandPipeline.tee_stdout = saved
    if not reached:
        h = sig.table[2]
        return (f"ctrl-c-lost: after `{tag}` finished, SIGINT is handled by {getattr(h, '__qualname__', h)} of a finished stage "
                f"(its saved handler: {getattr(getattr(h, '__self__', None), 'old_int_handler', '?')!r}) and never reaches the shell's handler")
    if sig.table[2] is not shell_handler:
        return f"ctrl-c-handler-not-restored: after `{tag}` and one Ctrl-C the shell's SIGINT handler is still not installed"
    return None


STAGE_KINDS = ["alias", "proc"]


def ob_sigint(nstages: int, k0: int, k1: int, k2: int, cap_i: int) -> Optional[str]:
    if not (1 <= nstages <= 3 and 0 <= cap_i < len(CAPTURES)):
        raise Skip()
    ks = [k0, k1, k2]
    for i in range(3):
        if i < nstages:
            if not (0 <= ks[i] < 2):
                raise Skip()
        elif ks[i] != 0:
            raise Skip()
    kinds = [_pick(STAGE_KINDS, ks[i]) for i in range(nstages)]
    r = concretely(_sigint_after, kinds, _pick(CAPTURES, cap_i))
    if r:
        k, rest = r.split(":", 1)
        return viol(k, lambda: rest.strip())
    return None


def _region_started(args, v):
    return v.startswith("leak-started-stage-before-failing-one")


OBLIGATIONS = [
    Obligation("pipe_channel", ob_channel,
               bounds="every sequence of up to 5 (quick) / 6 (thorough) operations out of open_writer, open_reader, close_writer, close_reader, "
                      "close, and another owner allocating a pipe (descriptor recycling), followed by close() twice",
               pre=["0 <= o0 < 6", "0 <= o1 < 6", "0 <= o2 < 6", "0 <= o3 < 6", "0 <= o4 < 6", "0 <= o5 < 6"],
               parts={"quick": [dict(n=k) for k in range(1, 5)] + [dict(n=5, o0=i) for i in range(6)],
                      "thorough": [dict(n=k) for k in range(1, 5)] + [dict(n=5, o0=i) for i in range(6)] + [dict(n=6, o0=i, o1=j) for i in range(6) for j in range(6)]},
               timeout={"quick": 240, "thorough": 900}, symbolic="operation indices"),
    Obligation("failure_paths", ob_failure,
               bounds="pipelines of 1..3 stages, four capture kinds, optional '<' file on the first stage; fault: none / conflicting redirects / "
                      "e>p without pipe / unthreadable alias in a pipeline / spec construction raising / process start raising OSError or "
                      "KeyboardInterrupt - at any stage; the model fd table must equal the one before the command",
               pre=["1 <= nstages <= 3", "0 <= cap_i < 4", "0 <= fail_i < 7", "0 <= at < 3"],
               parts={"quick": [dict(nstages=k) for k in (1, 2, 3)]}, timeout={"quick": 240, "thorough": 600},
               regions={"C09-leak-when-later-stage-fails-to-start": _region_started},
               symbolic="capture kind, fault kind, faulting stage, stdin redirect"),
    Obligation("sigint_after_pipeline", ob_sigint,
               bounds="pipelines of 1..3 stages, each a callable-alias stage (the real SIGINT save/restore methods of ProcProxyThread on a model stage "
                      "object that has finished) or a plain process, every capture kind, run through the real CommandPipeline end path: a Ctrl-C "
                      "afterwards reaches the shell's own handler, which is installed again after it",
               parts={"quick": [dict(nstages=n) for n in (1, 2, 3)]}, timeout={"quick": 120, "thorough": 120},
               symbolic="stage kinds, capture kind"),
    Obligation("spawn_failure_signals", ob_spawn_failure,
               bounds="PopenThread construction on the main thread where subprocess.Popen raises one of 7 exception classes (OSError family, "
                      "ValueError, UnicodeEncodeError, TypeError, MemoryError): SIGINT/SIGTSTP/SIGQUIT/SIGWINCH handlers equal those before",
               pre=["0 <= exc_i < 7"], timeout={"quick": 60, "thorough": 60}, symbolic="exception class index"),
]
