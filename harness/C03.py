"""C03 - a bare command line means exactly its explicit ![...] form, everywhere; detection always terminates.

Real code executed: xonsh/execer.py Execer._parse_ctx_free/_try_parse (recovery loop), Execer.parse/compile/exec;
xonsh/tools.py subproc_toks, find_next_break, balanced_parens, get_logical_line, replace_logical_line,
_ends_with_line_continuation, _have_open_triple_quotes, strip_continuation_comments; xonsh/parsers/ast.py
CtxAwareTransformer.try_subproc_toks/_column_window (phase-2 wrapping); the real lexer and parser.
(a) termination: the parser called by the loop is an adversary whose first answers are symbolic;
(b) logical-line helpers over symbolic short lines; (c) bare == explicit over a generated family of programs.
"""

from __future__ import annotations

from typing import List, Optional

from vf.api import Obligation, Skip, concretely, viol
from vf.session import load_session

XSH = load_session()

import xonsh.procs.specs as S  # noqa: E402
import xonsh.tools as T  # noqa: E402
from xonsh.parsers.base import Location  # noqa: E402

STUBS = [
    "(a) Execer.parser.parse -> adversary: its first two answers (success / SyntaxError without location / SyntaxError at a symbolic "
    "(line, column)) are symbolic, afterwards it reports a fresh error location on every call so that only the retry counter can stop the loop",
    "(c) xonsh.procs.specs.run_subproc -> recorder returning a successful pipeline stand-in; nothing is spawned",
]
ASSUMPTIONS = ["(c) equivalence is judged on the recorded (argv, redirect tuples, pipeline structure, capture kind) sequence of a run in which every command succeeds"]
OUTSIDE = ["command lines outside the generated family (c) - the full subprocess grammar on symbolic text needs the lexer and LALR parser "
           "inside the solver (same wall as C01)", "termination for input strings other than the seeds (a)"]

OPAQUE_NUMBER_FORMAT = True


# ----------------------------------------------------------------------------
# (a) termination of the recovery loop against an adversarial parser
# ----------------------------------------------------------------------------
SEEDS = [
    "ls -l\n",
    "echo a && echo b\nls\n",
    "echo a \\\n  b\nls -l\n",
    "if True:\n    ls -l\n    echo x\n",
    "x = '''\nabc\n'''\nls\n",
    "# only a comment\nls | wc\n",
]


class _TooManyCalls(BaseException):
    pass


class _Adversary:
    def __init__(self, outcomes, nlines, maxlen):
        self.outcomes = outcomes
        self.calls = 0
        self.nlines, self.maxlen = nlines, maxlen

    def parse(self, s, filename=None, mode="exec", debug_level=0):
        i = self.calls
        self.calls += 1
        if self.calls > 2000:
            raise _TooManyCalls()
        if i < len(self.outcomes):
            kind, ln, col = self.outcomes[i]
        else:
            # always progressing: never the same (line, column) nor column+1 as the call before
            kind, ln, col = 2, 1 + (i % self.nlines), (3 * i) % (self.maxlen + 2)
        if kind == 0:
            return "TREE"
        e = SyntaxError("adversary")
        e.loc = None if kind == 1 else Location("<adv>", ln, col)
        raise e


def ob_termination(seed_i: int, k0: int, l0: int, c0: int, k1: int, l1: int, c1: int, quad: int) -> Optional[str]:
    if not (0 <= seed_i < len(SEEDS) and 0 <= k0 < 3 and 0 <= k1 < 3 and -1 <= quad < 4):
        raise Skip()
    src = SEEDS[seed_i]
    nlines = len(src.splitlines())
    maxlen = max(len(x) for x in src.splitlines())
    if quad >= 0:
        # partition key only: which halves of the column range the two error columns lie in
        mid = (maxlen + 1) // 2
        if (c0 > mid) != (quad in (1, 3)) or (c1 > mid) != (quad in (2, 3)):
            raise Skip()
    if not (1 <= l0 <= nlines + 1 and 0 <= c0 <= maxlen + 1 and 1 <= l1 <= nlines + 1 and 0 <= c1 <= maxlen + 1):
        raise Skip()
    if k0 != 2 and (l0, c0) != (1, 0):
        raise Skip()
    if k1 != 2 and (l1, c1) != (1, 0):
        raise Skip()
    ex = XSH.execer
    adv = _Adversary([(k0, l0, c0), (k1, l1, c1)], nlines, maxlen)
    real_parse = ex.parser.parse
    ex.parser.parse = adv.parse
    try:
        try:
            ex._parse_ctx_free(src, mode="exec", filename="<c03>")
        except SyntaxError:
            pass
        except _TooManyCalls:
            return viol("non-termination", lambda: f"seed {src!r} adversary {adv.outcomes}: more than 2000 parser calls")
        except Exception as e:  # noqa: BLE001
            return viol("internal-exception", lambda: f"seed {src!r} adversary {adv.outcomes}: {type(e).__name__}: {e}")
    finally:
        ex.parser.parse = real_parse
    bound = 6 * (2 * nlines + 10) + 6
    if adv.calls > bound:
        return viol("retry-cap", lambda: f"seed {src!r} adversary {adv.outcomes}: {adv.calls} parser calls, the retry cap allows {bound}")
    return None


# ----------------------------------------------------------------------------
# (b) logical-line helpers
# ----------------------------------------------------------------------------
POOL = ["a", " ", "\\", '"', "'", "#", ";"]


def _pick(pool, i):
    j = 0
    while j < len(pool) - 1 and i != j:
        j += 1
    return pool[j]


def _logical(lines, idx):
    src = "\n".join(lines)
    try:
        logical, n, start = T.get_logical_line(list(lines), idx)
    except Exception as e:  # noqa: BLE001
        return f"helper-exception: get_logical_line({lines!r}, {idx}) raises {type(e).__name__}: {e}"
    if not (0 <= start <= idx < start + n <= len(lines)):
        kind = "logical-line-range-comment-backslash" if any("#" in ln and ln.endswith("\\") for ln in lines[:idx]) else "logical-line-range"
        return f"{kind}: get_logical_line({lines!r}, {idx}) = start {start}, n {n}: does not contain the line asked for"
    # a line whose last string contains the other quote and a '#' before the trailing backslash is still a continuation
    stripped = T.strip_continuation_comments(src)
    if len(stripped.split("\n")) != len(src.split("\n")):
        return f"line-count: strip_continuation_comments changed the number of lines of {src!r}"
    return None


def ob_logical(n: int, idx: int, a0: int, a1: int, a2: int, a3: int, b0: int, b1: int, b2: int, b3: int, la: int, lb: int) -> Optional[str]:
    """2 physical lines of up to 4 pool symbols each (+ a fixed third line)"""
    if not (0 <= la <= 4 and 0 <= lb <= 4 and 0 <= idx < 3 and n == 2):
        raise Skip()
    A, B = [a0, a1, a2, a3], [b0, b1, b2, b3]
    for i in range(4):
        for arr, ln in ((A, la), (B, lb)):
            if i < ln:
                if not (0 <= arr[i] < len(POOL)):
                    raise Skip()
            elif arr[i] != 0:
                raise Skip()
    l0 = "".join(_pick(POOL, A[i]) for i in range(la))
    l1 = "".join(_pick(POOL, B[i]) for i in range(lb))
    r = concretely(_logical, [l0, l1, "z"], _pick([0, 1, 2], idx))
    if r:
        k, rest = r.split(":", 1)
        return viol(k, lambda: rest.strip())
    return None


CONT = ['git commit -m "don\'t close #12" \\', "echo 'a \"b\" # c' \\", 'echo "x" # note \\', "echo a \\", "echo 'it''s' \\", 'echo "#" \\',
        "echo '#' \\", "echo \"a'b\" \\", "echo a # b", 'x = "\'#" \\']


def _continuation(i):
    line = CONT[i]
    # reference: scan respecting the quote that opened a string
    q = None
    comment = False
    for ch in line:
        if q:
            if ch == q:
                q = None
        elif ch in "'\"":
            q = ch
        elif ch == "#":
            comment = True
            break
    want = line.endswith("\\") and not comment
    got = T._ends_with_line_continuation(line, "\\")
    if bool(got) != want:
        return f"continuation-misjudged: {line!r}: _ends_with_line_continuation = {got}, expected {want}"
    logical, n, start = T.get_logical_line([line, "  next", "z"], 0)
    if (n == 2) != want:
        return f"continuation-misjudged: {line!r} followed by a line: logical group of {n} lines, expected {2 if want else 1}"
    return None


def ob_continuation(i: int) -> Optional[str]:
    if not (0 <= i < len(CONT)):
        raise Skip()
    r = concretely(_continuation, _pick(list(range(len(CONT))), i))
    if r:
        k, rest = r.split(":", 1)
        return viol(k, lambda: rest.strip())
    return None


# ----------------------------------------------------------------------------
# (c) bare == explicit over a generated family
# ----------------------------------------------------------------------------
SEGS = ["echo a", "ls -l", "cat < a.b.c", "ls -a > a.b.c.de", "wc -l < foo.tar.Z", "echo $HOME", "echo @(1)", "echo $(echo x)", "echo 'q w'",
        "ls | wc", "cat < main.c.o", "echo --b=c", "ls --color=auto", "echo a.b.c.d e.f.g.h", "grep -v x y.z",
        # segments that end in an operator-like word (the parse error then falls on the following break token), alone and after a substitution
        "cd -", "rm -rf *", "echo @(1) -", "echo $(echo q) *",
        # a break word (and / or / ;) inside a substitution; a command word that starts with an environment variable
        "echo @(1 and 2) z", "echo $(echo a; echo b)", "$HOME/bin/x -l"]
_BREAK_IN_SUBST = ("echo @(1 and 2) z", "echo $(echo a; echo b)")
_ENV_LEAD = ("$HOME/bin/x -l",)
OPS = [None, "&&", "||", "and", "or"]
POSITIONS = ["top", "after_semicolon", "block", "block2", "function", "continuation", "after_subst_semicolon", "after_def_with_params"]


class _OK:
    returncode = 0
    spec = None

    def __bool__(self):
        return True


REC: List = []


def _rec(cmds, captured=False, envs=None, in_boolop=False):
    REC.append((repr(cmds), captured))
    if captured == "stdout":
        return "x"
    return _OK()


def _program(segs, op, pos, explicit):
    parts = ["![" + s + "]" if explicit else s for s in segs]
    if pos == "continuation" and not explicit:
        # split the first segment after its first word
        w = segs[0].split(" ", 1)
        if len(w) == 2:
            parts[0] = w[0] + " \\\n" + w[1]
    line = (" " + op + " ").join(parts) if op else parts[0]
    if pos in ("top", "continuation"):
        return line + "\n"
    if pos == "after_semicolon":
        return "x = 1; " + line + "\n"
    if pos == "after_subst_semicolon":
        return "x = $(echo q); " + line + "\n"
    if pos == "after_def_with_params":
        # a function defined earlier whose parameters are named like the command words: its scope ended, the words are unbound
        return "def _p(echo, ls, cat, wc, cd, rm, grep, a, l, x, hi, *v, **k):\n    pass\n" + line + "\n"
    if pos == "block":
        return "if True:\n    " + line + "\n"
    if pos == "block2":
        return "for _i in [1]:\n    if True:\n        " + line + "\n"
    return "def _f():\n    " + line + "\n_f()\n"


def _run(src):
    del REC[:]
    saved = (S.run_subproc, XSH.lastcmd)
    S.run_subproc = _rec
    XSH.lastcmd = None
    XSH.env["XONSH_SUBPROC_RAISE_ERROR"] = False
    try:
        XSH.execer.exec(src, glbs={}, locs=None)
        return list(REC), None
    except SyntaxError as e:
        return None, f"SyntaxError: {e}"
    except Exception as e:  # noqa: BLE001
        return None, f"{type(e).__name__}: {e}"
    finally:
        S.run_subproc = saved[0]


def _equiv(s0, s1, op_i, pos_i):
    op = OPS[op_i]
    segs = [SEGS[s0]] + ([SEGS[s1]] if op else [])
    pos = POSITIONS[pos_i]
    bare, expl = _program(segs, op, pos, False), _program(segs, op, pos, True)
    want, err_e = _run(expl)
    if want is None:
        return None  # the explicit form itself is not accepted here: nothing to compare with
    got, err_b = _run(bare)
    flags = any("--" in s and "=" in s for s in segs)
    if got is None:
        kind = "bare-rejected-dashdash-eq" if flags and op else "bare-rejected"
        if kind == "bare-rejected" and any(s in _BREAK_IN_SUBST for s in segs):
            kind = "bare-rejected-break-word-in-substitution"
        return f"{kind}: {bare!r} is rejected ({err_b}) although {expl!r} runs {want}"
    norm = lambda r: [(c.replace("'![", "'").replace("]'", "'"), k) for c, k in r]  # noqa: E731
    if [c for c, _ in got] != [c for c, _ in want]:
        kind = "bare-differs-continued-python-parsable-chain" if pos == "continuation" and op else "bare-differs"
        if kind == "bare-differs" and any(s in _ENV_LEAD for s in segs):
            mine = [c for c, _ in got if "/bin/x" in c]
            theirs = [c for c, _ in want if "/bin/x" in c]
            rest_same = [c for c, _ in got if "/bin/x" not in c] == [c for c, _ in want if "/bin/x" not in c]
            if rest_same and mine and all(c.startswith("(['/bin/x'") for c in mine) and len(mine) == len(theirs):
                kind = "bare-differs-leading-envvar-dropped"
        return f"{kind}: {bare!r} runs {got} but {expl!r} runs {want}"
    return None


def ob_equiv(s0: int, s1: int, op_i: int, pos_i: int) -> Optional[str]:
    if not (0 <= s0 < len(SEGS) and 0 <= s1 < len(SEGS) and 0 <= op_i < len(OPS) and 0 <= pos_i < len(POSITIONS)):
        raise Skip()
    if op_i == 0 and s1 != 0:
        raise Skip()
    r = concretely(_equiv, _pick(list(range(len(SEGS))), s0), _pick(list(range(len(SEGS))), s1), _pick(list(range(len(OPS))), op_i),
                   _pick(list(range(len(POSITIONS))), pos_i))
    if r:
        k, rest = r.split(":", 1)
        return viol(k, lambda: rest.strip())
    return None


def _long_chain(n, op_i):
    op = OPS[op_i]
    segs = [f"echo a{k} b" for k in range(n)]
    bare, expl = _program(segs, op, "top", False), _program(segs, op, "top", True)
    want, err_e = _run(expl)
    if want is None:
        return None
    got, err_b = _run(bare)
    if got is None:
        return f"bare-rejected-long-chain: a chain of {n} two-word commands joined by {op} is rejected ({err_b}) although the explicit form runs {len(want)} commands"
    if [c for c, _ in got] != [c for c, _ in want]:
        return f"bare-differs-long-chain: {n} segments joined by {op}: runs {got}, explicit form runs {want}"
    return None


def ob_long_chain(n: int, op_i: int) -> Optional[str]:
    if not (3 <= n <= 16 and 1 <= op_i < len(OPS)):
        raise Skip()
    r = concretely(_long_chain, _pick(list(range(3, 17)), n - 3), _pick(list(range(len(OPS))), op_i))
    if r:
        k, rest = r.split(":", 1)
        return viol(k, lambda: rest.strip())
    return None


def _region_long_chain(args, v):
    return v.startswith("bare-rejected-long-chain") and args.get("n", 0) >= 12


def _region_break_subst(args, v):
    return v.startswith("bare-rejected-break-word-in-substitution")


def _region_env_lead(args, v):
    return v.startswith("bare-differs-leading-envvar-dropped")


def _region_dashdash(args, v):
    return v.startswith("bare-rejected-dashdash-eq")


def _region_cont_chain(args, v):
    return v.startswith("bare-differs-continued-python-parsable-chain")


def _region_comment_backslash(args, v):
    return v.startswith("logical-line-range-comment-backslash")


def _term_parts(quick):
    out = []
    for s in range(len(SEEDS)):
        n = len(SEEDS[s].splitlines())
        for a in range(3):
            for b in range(3):
                if (a, b) != (2, 2):
                    out.append(dict(seed_i=s, k0=a, k1=b, quad=-1))
                elif quick:
                    if s < 3:
                        # long lines: the (column, column) square is split into quadrants so that each partition exhausts
                        quads = (0, 1, 2, 3) if max(len(x) for x in SEEDS[s].splitlines()) > 10 else (-1,)
                        out += [dict(seed_i=s, k0=2, k1=2, l0=x, l1=y, quad=q) for x in range(1, n + 2) for y in range(1, n + 2) for q in quads]
                else:
                    out += [dict(seed_i=s, k0=2, k1=2, l0=x, l1=y, quad=q) for x in range(1, n + 2) for y in range(1, n + 2) for q in (0, 1, 2, 3)]
    return out


NS = len(SEGS)
OBLIGATIONS = [
    Obligation("termination", ob_termination,
               bounds="6 seed inputs (plain, && chain, continuation, indented block, triple-quoted string, comment); the parser's first two "
                      "answers symbolic (kind; line in 1..n+1; column in 0..len+1; quick: both-located answers only for the first three seeds), then a fixed always-progressing adversary: the loop returns "
                      "or raises SyntaxError, never another exception, within the retry cap",
               pre=["1 <= l0 <= 6", "0 <= c0 <= 40", "1 <= l1 <= 6", "0 <= c1 <= 40"],
               parts={"quick": _term_parts(True), "thorough": _term_parts(False)},
               timeout={"quick": 240, "thorough": 1200}, path_timeout=30, symbolic="two error locations (line, column)"),
    Obligation("logical_lines", ob_logical,
               bounds="two physical lines of together <= 4 (quick) / <= 5 (thorough) symbols over {a, space, backslash, double quote, single quote, #, ;} followed by a "
                      "fixed line; every line index",
               pre=["0 <= la <= 4", "0 <= lb <= 4"] + [f"0 <= {v} < 7" for v in ("a0", "a1", "a2", "a3", "b0", "b1", "b2", "b3")],
               parts={"quick": [dict(n=2, la=x, lb=y, a3=0, b3=0) for x in range(4) for y in range(4) if x + y <= 4],
                      "thorough": [dict(n=2, la=x, lb=y) for x in range(5) for y in range(5) if x + y <= 5]},
               timeout={"quick": 330, "thorough": 1200}, regions={"C03-logical-line-after-comment-backslash": _region_comment_backslash},
               region_parts={"C03-logical-line-after-comment-backslash": lambda p: p.get("la", 0) >= 2 and p.get("lb", 0) >= 2},
               symbolic="symbol index per position, line index"),
    Obligation("continuation_strings", ob_continuation, bounds=f"{len(CONT)} lines with strings containing the other quote and/or '#' before a trailing backslash",
               pre=["0 <= i < 10"], timeout={"quick": 60, "thorough": 60}, symbolic="line index"),
    Obligation("bare_equals_explicit", ob_equiv,
               bounds=f"{NS} command segments (flags, redirects to dotted names, $VAR, @(), $(), quoted words, pipes, --opt=value, words ending in an "
                      "operator character, break words inside a substitution, a leading $VAR/path word) alone or joined "
                      "by && / || / and / or, at top level, after ';' (also after a statement holding a $() substitution), after a function whose parameters are named like the command words, in an indented block, at depth 2, "
                      "in a function body, across a backslash continuation: the bare program runs exactly the commands of the program with every segment wrapped in ![...]",
               pre=[f"0 <= s0 < {NS}", f"0 <= s1 < {NS}", "0 <= op_i < 5", "0 <= pos_i < 8"],
               parts={"quick": [dict(pos_i=p, op_i=o) for p in range(len(POSITIONS)) for o in range(len(OPS))]},
               timeout={"quick": 240, "thorough": 600},
               regions={"C03-dashdash-eq-in-chain": _region_dashdash, "C03-continued-python-parsable-chain": _region_cont_chain,
                        "C03-break-word-inside-substitution": _region_break_subst, "C03-leading-envvar-word-dropped": _region_env_lead},
               region_parts={"C03-continued-python-parsable-chain": lambda p: p.get("pos_i") == 5 and p.get("op_i") != 0,
                             "C03-dashdash-eq-in-chain": lambda p: p.get("op_i") != 0},
               symbolic="segment indices"),
    Obligation("long_chain", ob_long_chain,
               bounds="chains of 3..16 two-word commands joined by one of && / || / and / or on one line at top level: the bare line runs what the explicit form runs",
               pre=["3 <= n <= 16", "1 <= op_i < 5"], timeout={"quick": 200, "thorough": 300},
               regions={"C03-long-chain-retry-cap": _region_long_chain}, symbolic="chain length, operator"),
]
