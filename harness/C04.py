"""C04 - arguments reach the command exactly as written (runtime hand-off).

Real code executed: the code objects the real parser + transformer produce for the argument templates below;
xonsh/built_ins.py list_of_strs_or_callables, ensure_str_or_callable, list_of_list_of_strs_outer_product,
subproc_captured_inject, subproc_captured_hiddenobject; xonsh/tools.py expand_path, expandvars, _expandpath;
xonsh/parsers/lexer.py Lexer.split (for @$()); xonsh/procs/specs.py SubprocSpec.__init__, resolve_args_list,
_fix_null_cmd_bytes, _flatten_cmd_redirects.
Symbolic: the injected values X, Y (strings of up to 3 characters, any code points), list lengths.
"""

from __future__ import annotations

import re
from typing import List, Optional

from vf.api import Obligation, Skip, concretely, viol
from vf.session import load_session

XSH = load_session()

import xonsh.built_ins as BI  # noqa: E402
import xonsh.procs.specs as S  # noqa: E402
import xonsh.tools as T  # noqa: E402

STUBS = [
    "xonsh.procs.specs.run_subproc -> recorder of the argv handed over (returns what the capture kind returns); for @$() it returns the chosen inner output",
    "XSH.glob -> recorder returning a marker (the claim is 'never called on injected content')",
    "environment for literal expansion: a fixed Env with A, B, HOME, C04DIR set and AB, C04DIR_EXTRA unset",
]
ASSUMPTIONS = ["injected values contain no NUL", "documented expansion of non-raw literals: $NAME / ${NAME} of set variables and a leading ~"]
OUTSIDE = ["lexing/quoting of the literal text itself (regex tokenizer)", "alias-thread vs Popen delivery (OS)", "strings longer than the bound"]

OPAQUE_NUMBER_FORMAT = True

REC: List = []
GLOBBED: List = []
INNER = [""]


def _run_subproc(cmds, captured=False, envs=None, in_boolop=False):
    REC.append([list(c) if isinstance(c, list) else c for c in cmds])
    if captured == "stdout":
        return INNER[0]
    return None


def _glob(s, *a, **k):
    GLOBBED.append(s)
    return ["<globbed>"]


TEMPLATES = {
    "single": "cmd @(X)\n",
    "concat": "cmd pre@(X)post\n",
    "list": "cmd @(XS) z\n",
    "two": "cmd @(X) @(Y)\n",
    "mid": "cmd a @(X) b\n",
    "fstr": 'cmd f"{X}"\n',
}
CODE = {}


MAXLEN = [3]


def _prepare(tier=None, part=None):
    if tier == "thorough":
        MAXLEN[0] = 5
    if CODE:
        return
    for k, src in TEMPLATES.items():
        CODE[k] = XSH.execer.compile(src, mode="exec", glbs={"X": "", "Y": "", "XS": []}, locs=None, filename="<vf-c04>")
    XSH.env["A"] = "va"
    XSH.env["B"] = "$A"
    XSH.env["C04DIR"] = "/opt/tool"
    XSH.env["HOME"] = "/home/u"
    XSH.env["EXPAND_ENV_VARS"] = True
    for k in ("AB", "C04DIR_EXTRA", "UNSET"):
        if k in XSH.env:
            del XSH.env[k]


def _exec(tpl, X=None, Y=None, XS=None):
    _prepare()
    from crosshair.tracers import NoTracing

    with NoTracing():
        ns = {}  # a real dict: exec() rejects CrossHair's mapping proxies
    ns["X"] = X
    ns["Y"] = Y
    ns["XS"] = XS
    del REC[:]
    del GLOBBED[:]
    saved = (S.run_subproc, XSH.glob, XSH.lastcmd)
    S.run_subproc = _run_subproc
    XSH.glob = _glob
    XSH.lastcmd = None
    try:
        exec(CODE[tpl], ns)
    finally:
        S.run_subproc, XSH.glob = saved[0], saved[1]
    return REC[0][0] if REC else None


def ob_inject_single(X: str) -> Optional[str]:
    """cmd @(X): exactly one argument, verbatim"""
    if len(X) > MAXLEN[0] or "\x00" in X:
        raise Skip()
    argv = _exec("single", X=X)
    if argv is None or len(argv) != 2:
        return viol("arg-count", lambda: f"cmd @({X!r}) delivered {argv}")
    if argv[1] != X:
        return viol("not-verbatim", lambda: f"cmd @({X!r}) delivered {argv}")
    if GLOBBED:
        return viol("globbed", lambda: f"cmd @({X!r}) called glob on {GLOBBED}")
    return None


def ob_inject_positions(X: str, Y: str) -> Optional[str]:
    """cmd @(X) @(Y) and cmd a @(X) b: arguments stay in position"""
    if len(X) > 2 or len(Y) > 2 or "\x00" in X or "\x00" in Y:
        raise Skip()
    argv = _exec("two", X=X, Y=Y)
    if argv != ["cmd", X, Y] or GLOBBED:
        return viol("not-verbatim", lambda: f"cmd @({X!r}) @({Y!r}) delivered {argv} (glob calls {GLOBBED})")
    argv = _exec("mid", X=X)
    if argv != ["cmd", "a", X, "b"] or GLOBBED:
        return viol("not-verbatim", lambda: f"cmd a @({X!r}) b delivered {argv}")
    return None


def ob_inject_list(n: int, X: str, Y: str) -> Optional[str]:
    """cmd @(XS) z: one argument per element"""
    if not (0 <= n <= 2) or len(X) > 2 or len(Y) > 2 or "\x00" in X or "\x00" in Y:
        raise Skip()
    xs = [X, Y][:n]
    for kind in (list, tuple):
        argv = _exec("list", XS=kind(xs))
        if argv != ["cmd"] + xs + ["z"] or GLOBBED:
            return viol("list-injection", lambda: f"cmd @({kind(xs)!r}) z delivered {argv}")
    return None


def ob_inject_concat(X: str) -> Optional[str]:
    """cmd pre@(X)post: one argument 'pre' + X + 'post', X neither globbed nor expanded"""
    if len(X) > 1 or "\x00" in X:
        raise Skip()
    argv = _exec("concat", X=X)
    want = ["cmd", "pre" + X + "post"]
    if GLOBBED:
        return viol("concat-globbed", lambda: f"cmd pre@({X!r})post: the injected text was handed to glob ({GLOBBED})")
    if argv != want:
        if "$" in X or "~" in X:
            return viol("concat-expanded", lambda: f"cmd pre@({X!r})post delivered {argv}, expected {want}")
        return viol("not-verbatim", lambda: f"cmd pre@({X!r})post delivered {argv}, expected {want}")
    return None


def ob_other_types(kind: int, v: int, X: str) -> Optional[str]:
    """bytes / int / callable / nested f-string values"""
    if not (0 <= kind < 4) or len(X) > 2 or "\x00" in X or not (-100 < v < 100):
        raise Skip()
    if kind == 0:
        argv = _exec("single", X=v)
        if argv != ["cmd", str(v)]:
            return viol("int-injection", lambda: f"cmd @({v}) delivered {argv}")
    elif kind == 1:
        fn = lambda args: 0  # noqa: E731
        argv = _exec("single", X=fn)
        if argv is None or len(argv) != 2 or argv[1] is not fn:
            return viol("callable-injection", lambda: f"callable not passed through: {argv}")
    elif kind == 2:
        # bytes: finite pool (encoding a symbolic character is realised code point by code point)
        POOL = ["", "a", "é", " ", "*", "\\", "日本", "a b"]
        if not (0 <= v < len(POOL)):
            raise Skip()
        j = 0
        while j < len(POOL) - 1 and v != j:
            j += 1
        X = POOL[j]
        b = X.encode("utf-8")
        argv = _exec("single", X=b)
        if argv != ["cmd", X]:
            return viol("bytes-injection", lambda: f"cmd @({b!r}) delivered {argv}")
    else:
        if "$" in X or "~" in X or "{" in X or "}" in X:
            raise Skip()  # documented expansion applies to non-raw literals
        argv = _exec("fstr", X=X)
        if argv != ["cmd", X]:
            return viol("fstring", lambda: f'cmd f"{{X}}" with X={X!r} delivered {argv}')
    return None


# ----------------------------------------------------------------------------
# documented expansion of non-raw literals (finite pool of tricky shapes, real expand_path)
# ----------------------------------------------------------------------------
LITS = ["$A", "$AB:$A", "$B/$A", "${'A'}b", "$A$A", "$UNSET", "pre$A", "$A:$AB", "$C04DIR_EXTRA:$C04DIR", "$C04DIR/$C04DIR", "a b", "*",
        "x$", "$", "$$A", "${'A", "~", "~/x", "a~", "$HOME/$A", "$A-$B-$A", "${'UNSET'}x", "$1", "$A.txt", "é$A", "$AB$A$AB"]
ENVV = {"A": "va", "B": "$A", "C04DIR": "/opt/tool", "HOME": "/home/u"}


def ref_expand(s):
    """documented: $NAME and ${'NAME'} of set variables are replaced, in place, left to right; unset ones stay; a leading ~ is the home directory"""
    out = []
    i = 0
    pat = re.compile(r"\$(?:(\w+)\b|\{'(\w+)'\}|\{\"(\w+)\"\})")
    while i < len(s):
        m = pat.match(s, i)
        if m:
            name = m.group(1) or m.group(2) or m.group(3)
            if name in ENVV:
                out.append(ENVV[name])
            else:
                out.append(m.group(0))
            i = m.end()
        else:
            out.append(s[i])
            i += 1
    r = "".join(out)
    if r == "~" or r.startswith("~/"):
        import os

        r = os.path.expanduser(r)
    return r


def _literal(lit, raw):
    _prepare()
    src = "cmd " + ("r" if raw else "") + '"' + lit + '"\n'
    code = XSH.execer.compile(src, mode="exec", glbs={}, locs=None, filename="<vf-c04-lit>")
    del REC[:]
    saved = S.run_subproc
    S.run_subproc = _run_subproc
    try:
        exec(code, {})
    finally:
        S.run_subproc = saved
    argv = REC[0][0]
    py_value = eval(("r" if raw else "") + '"' + lit + '"')  # the literal's Python value
    want = py_value if raw else ref_expand(py_value)
    if len(argv) != 2:
        return f"literal-split: {src!r} delivered {argv}"
    if argv[1] != want:
        kind = "raw-literal" if raw else "expansion"
        return f"{kind}: {src!r} delivered {argv[1]!r}, documented value {want!r}"
    return None


def ob_literal(i: int, raw: bool) -> Optional[str]:
    if not (0 <= i < len(LITS)):
        raise Skip()
    j = 0
    while j < len(LITS) - 1 and i != j:
        j += 1
    r = concretely(_literal, LITS[j], True if raw else False)
    if r:
        k, rest = r.split(":", 1)
        return viol(k, lambda: rest.strip())
    return None


# ----------------------------------------------------------------------------
# @$(): output re-split with the shell lexer only; macro raw text
# ----------------------------------------------------------------------------
OUTPUTS = [("a b", ["a", "b"]), ("a  b\n", ["a", "b"]), ("'a b' c", ["'a b'", "c"]), ("*", ["*"]), ("$HOME", ["$HOME"]), ("~", ["~"]),
           ("a\tb", ["a", "b"]), ("x\ny\n", ["x", "y"]), ("", []), ("a*b c?", ["a*b", "c?"]), ("`ls`", ["`ls`"])]
MACROS = [' some  raw "text" $A', " a;b && c | d", " @(x) $(y)", "  lead", " trailing  ", " 'q' \\ z",
          # macro text spanning physical lines (possible inside explicit subprocess brackets, with an open bracket in the text)
          ("$[cmd !{}]", " x (1,\n 2) y"), ("![cmd !{}]", " x [1,\n    2,\n  3] y"), ("$(cmd !{})", " (a,\n b)"), ("$[cmd !{}]", " x (1,\n2) y")]


def _inject(i):
    _prepare()
    out, want = OUTPUTS[i]
    code = XSH.execer.compile("cmd @$(inner y) z\n", mode="exec", glbs={}, locs=None, filename="<vf-c04-inj>")
    del REC[:]
    del GLOBBED[:]
    INNER[0] = out
    saved = (S.run_subproc, XSH.glob)
    S.run_subproc = _run_subproc
    XSH.glob = _glob
    try:
        exec(code, {})
    finally:
        S.run_subproc, XSH.glob = saved
    argv = REC[-1][0]
    if GLOBBED:
        return f"inject-globbed: output {out!r} of @$() was globbed"
    if argv != ["cmd"] + want + ["z"]:
        return f"inject-split: cmd @$(inner) z with inner output {out!r} delivered {argv}, expected {['cmd'] + want + ['z']}"
    return None


def _macro(i):
    _prepare()
    body = MACROS[i]
    if isinstance(body, tuple):
        src, body = body[0].format(body[1]), body[1]
    else:
        src = "cmd !" + body
    code = XSH.execer.compile(src + "\n", mode="exec", glbs={}, locs=None, filename="<vf-c04-macro>")
    del REC[:]
    saved = S.run_subproc
    S.run_subproc = _run_subproc
    try:
        exec(code, {})
    finally:
        S.run_subproc = saved
    argv = REC[0][0]
    want = body.strip()
    if argv != ["cmd", want]:
        return f"macro-text: {src!r} delivered {argv}, the source text after the ! is {want!r}"
    return None


def ob_inject_macro(which: int, i: int) -> Optional[str]:
    if which == 0:
        if not (0 <= i < len(OUTPUTS)):
            raise Skip()
        fn, n = _inject, len(OUTPUTS)
    elif which == 1:
        if not (0 <= i < len(MACROS)):
            raise Skip()
        fn, n = _macro, len(MACROS)
    else:
        raise Skip()
    j = 0
    while j < n - 1 and i != j:
        j += 1
    r = concretely(fn, j)
    if r:
        k, rest = r.split(":", 1)
        return viol(k, lambda: rest.strip())
    return None


# ----------------------------------------------------------------------------
# hand-off stage: SubprocSpec.build keeps every argument word, whatever it is equal to
# ----------------------------------------------------------------------------
def _vfrec(args, stdin=None):
    return 0


SPECIAL: List[str] = []


def _special_words():
    """Argument words that mean something elsewhere: every name in the session's real alias table (decorator aliases,
    callable aliases, string aliases), plus operator/marker words. Rebuilt from the running session."""
    if not SPECIAL:
        names = sorted(str(k) for k in XSH.aliases)
        SPECIAL.extend(names + ["@", "@nosuch", "-", "--", "&&", "||", "|", "and", "or", "<", ">", "2>&1", "&", "!", "$A", "~", "*", "", " "])
    return SPECIAL


def _spec_case(kind, pos, j):
    words = _special_words()
    w = words[j]
    args = ["a0", "a1", "a2"]
    args[pos] = w
    XSH.aliases["vfrec"] = _vfrec
    saved = S.locate_executable
    try:
        head = "vfrec" if kind == 0 else "cat"  # `cat`: an ordinary program, not in the alias table
        try:
            spec = S.SubprocSpec.build([head] + list(args))
        except Exception as e:  # noqa: BLE001
            return f"spec-exception: {[head] + args}: {type(e).__name__}: {e}"
    finally:
        S.locate_executable = saved
        del XSH.aliases["vfrec"]
    if kind == 0:
        got = list(spec.cmd) if getattr(spec.alias, "func", None) is _vfrec else ["<alias lost>"] + list(spec.cmd)
        want = args
    else:
        got, want = list(spec.cmd), [head] + args
    if got != want:
        return f"spec-argument-consumed: `{head} {' '.join(args)}` is handed over as {got} (argument {pos + 1} = {w!r} names something in the alias table or is an operator word; only leading words may be interpreted)"
    if list(spec.decorators):
        return f"spec-argument-applied: `{head} {' '.join(args)}`: the argument {w!r} was applied as a decorator ({[d for d in spec.decorators]})"
    return None


def ob_spec_args(kind: int, pos: int, i: int) -> Optional[str]:
    n = len(_special_words())
    if not (0 <= kind < 2 and 0 <= pos < 3 and 0 <= i < n):
        raise Skip()
    j = 0
    while j < n - 1 and i != j:
        j += 1
    k = 0
    while k < 2 and pos != k:
        k += 1
    r = concretely(_spec_case, 1 if kind else 0, k, j)
    if r:
        kd, rest = r.split(":", 1)
        return viol(kd, lambda: rest.strip())
    return None


def _region_concat(args, v):
    return v.startswith("concat-globbed") or v.startswith("concat-expanded")


OBLIGATIONS = [
    Obligation("inject_single", ob_inject_single, bounds="cmd @(X), X any string of <= 3 (thorough: 5) characters without NUL (symbolic)",
               pre=["len(X) <= 5"], timeout={"quick": 120, "thorough": 600}, prepare=_prepare, symbolic="X: str"),
    Obligation("inject_positions", ob_inject_positions, bounds="cmd @(X) @(Y), cmd a @(X) b; X, Y any strings of <= 2 characters",
               pre=["len(X) <= 2", "len(Y) <= 2"], timeout={"quick": 120, "thorough": 600}, prepare=_prepare, symbolic="X, Y: str"),
    Obligation("inject_list", ob_inject_list, bounds="cmd @(XS) z, XS a list or tuple of 0..2 symbolic strings of <= 2 characters",
               pre=["len(X) <= 2", "len(Y) <= 2", "0 <= n <= 2"], timeout={"quick": 120, "thorough": 600}, prepare=_prepare, symbolic="n, X, Y"),
    Obligation("inject_concat", ob_inject_concat, bounds="cmd pre@(X)post, X any string of <= 1 character (expand_path's regex on a symbolic string is slow)",
               pre=["len(X) <= 1"], timeout={"quick": 200, "thorough": 600}, prepare=_prepare,
               regions={"C04-concatenated-injection-reinterpreted": _region_concat}, symbolic="X: str"),
    Obligation("inject_other_types", ob_other_types, bounds="int (|v| < 100), callable, bytes (one character) and f-string values",
               pre=["len(X) <= 2", "-100 < v < 100", "0 <= kind < 4"], parts={"quick": [dict(kind=0, X=""), dict(kind=1, X="", v=0), dict(kind=2, X=""), dict(kind=3, v=0)]},
               timeout={"quick": 120, "thorough": 600}, prepare=_prepare, symbolic="v: int, X: str"),
    Obligation("literal_expansion", ob_literal,
               bounds=f"{len(LITS)} literal shapes ($NAME adjacent / prefix-of-another / unset / braces / value containing $ / ~ positions / glob chars), raw and non-raw",
               pre=["0 <= i < 40"], timeout={"quick": 120, "thorough": 300}, prepare=_prepare, symbolic="literal index, raw flag"),
    Obligation("inject_output_and_macro", ob_inject_macro,
               bounds=f"@$() with {len(OUTPUTS)} inner outputs (quotes, glob and expansion characters, blank lines); macro ! with {len(MACROS)} bodies",
               pre=["0 <= i < 20"], parts={"quick": [dict(which=0), dict(which=1)]}, timeout={"quick": 120, "thorough": 300}, prepare=_prepare,
               symbolic="pool index"),
    Obligation("spec_args", ob_spec_args,
               bounds="SubprocSpec.build on `head a0 a1 a2` (head = a callable alias / the program `cat`) with one argument replaced by each name of the "
                      "session's real alias table (every decorator alias, callable and string alias) or an operator/marker word, at each of the 3 positions: "
                      "spec.cmd keeps the word, no decorator is applied",
               pre=["0 <= kind < 2", "0 <= pos < 3", "0 <= i < 200"], parts={"quick": [dict(kind=0), dict(kind=1)]},
               timeout={"quick": 200, "thorough": 300}, prepare=_prepare, symbolic="word index, position"),
]
