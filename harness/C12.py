"""C12 - history records every command once, in order, and reads it back verbatim (JSON backend).

Real code executed: xonsh/history/json.py JsonHistory.append, flush, __len__, JsonCommandField.__getitem__ (int,
negative, slice), JsonHistoryFlusher.dump (HISTCONTROL filtering, skip accounting); xonsh/history/base.py
History.__getitem__/is_ignored; xonsh/lib/lazyjson.py _to_json_with_size, index, dumps, LazyJSON, LJNode.
Symbolic: the history of append/flush operations (finite domain), buffer size, $HISTCONTROL, return codes; for the
index obligation the rendered length of every leaf (unbounded-ish integers through free symbolic strings).
"""

from __future__ import annotations

import collections
import io
import threading
from typing import List, Optional

import xonsh.history.json as hj
import xonsh.lib.lazyjson as xlj
from xonsh.built_ins import XSH

from vf.api import Obligation, Skip, concretely, gappy, viol

STUBS = [
    "open (json.py, lazyjson.py), os.replace/fdopen, tempfile.mkstemp -> in-memory files; text files are UTF-8 byte buffers behind a "
    "real io.TextIOWrapper, so seek() positions are byte offsets exactly as on disk",
    "JsonHistoryFlusher.start -> runs the flusher synchronously (the FIFO ticket queue makes creation order the only admissible order; "
    "the queue discipline itself is not verified here)",
    "time.time -> counter; XSH.env -> dict; JsonHistoryGC not started (gc=False)",
    "index obligation: json.dumps on *leaves* -> a table of free symbolic strings (any rendering of 2..6 characters); containers are rendered by the real code",
]
ASSUMPTIONS = [
    "ignoredups / ignoreerr are applied when a buffer is flushed, per flushed batch (as implemented and documented for the JSON backend); "
    "the reference applies the same rule - the obligations are about consistency of len / index / slice / iteration with it",
]
OUTSIDE = ["SQLite backend", "preemptive timing of real flusher threads (pending_flush covers the cooperative sequentialisations only; $HISTCONTROL skips and clear with a flusher pending are outside)", "BaseShell._append_history (one entry per executed command)"]

OPAQUE_NUMBER_FORMAT = True


# ----------------------------------------------------------------------------
# in-memory files (bytes on disk)
# ----------------------------------------------------------------------------
class _W(io.StringIO):
    def __init__(self, fs, name):
        super().__init__()
        self.fs, self.name_ = fs, name

    def close(self):
        if not self.closed:
            self.fs.files[self.name_] = self.getvalue().encode("utf-8")
        super().close()

    def __exit__(self, *a):
        self.close()
        return False


class FS:
    def __init__(self):
        self.files = {}
        self.fds = {}
        self.n = 0

    def open(self, path, mode="r", *a, **k):
        if "w" in mode:
            return _W(self, path)
        if path not in self.files:
            raise FileNotFoundError(2, "no such file", path)
        return io.TextIOWrapper(io.BytesIO(self.files[path]), encoding="utf-8", newline="\n")

    def mkstemp(self, dir=None, suffix="", **k):
        self.n += 1
        name = f"{dir}/tmp{self.n}{suffix}"
        self.fds[900 + self.n] = name
        return 900 + self.n, name

    def fdopen(self, fd, mode="r", *a, **k):
        return _W(self, self.fds[fd])

    def replace(self, a, b):
        self.files[b] = self.files.pop(a)


class _Time:
    t = 0.0

    @classmethod
    def time(cls):
        cls.t += 1.0
        return cls.t

    @staticmethod
    def sleep(_):
        pass


class _Env(dict):
    pass


def _install(fs, histcontrol):
    import posixpath

    class P:
        dirname = staticmethod(posixpath.dirname)
        join = staticmethod(posixpath.join)
        expanduser = staticmethod(lambda p: p)

        @staticmethod
        def exists(p):
            return p in fs.files

    class O:
        path = gappy(P, "os_path")
        replace = staticmethod(fs.replace)
        rename = staticmethod(fs.replace)  # POSIX rename == replace
        fdopen = staticmethod(fs.fdopen)
        environ = {}

        @staticmethod
        def chmod(*a):
            pass

        @staticmethod
        def unlink(p):
            fs.files.pop(p, None)

    hj.os = gappy(O, "os")
    hj.open = fs.open
    hj.tempfile = gappy(type("tempfile", (), {"mkstemp": staticmethod(fs.mkstemp)}))
    hj.time = _Time
    hj.print = lambda *a, **k: None
    xlj.open = fs.open
    _Time.t = 0.0
    XSH.env = _Env(HISTCONTROL=histcontrol, XONSH_STORE_STDOUT=False, XONSH_DEBUG=0, XONSH_HISTORY_SAVE_CWD=True,
                   XONSH_HISTORY_IGNORE_REGEX=None)
    hj.JsonHistoryFlusher.start = lambda self: self.run()


FN = "/h/xonsh-s.json"
TEXTS = ["ls", "pwd", "echo 1"]
HC = ["", "ignoredups", "ignoreerr", "ignoredups,ignoreerr", "ignorespace"]
OPS = ["append_a", "append_same", "append_b_fail", "append_spc", "flush", "append_c", "clear"]


def _pick(pool, i):
    j = 0
    while j < len(pool) - 1 and i != j:
        j += 1
    return pool[j]


class _ModelCond:
    """The history's condition variable under a cooperative schedule: a waiter that is not yet at the front of the queue lets the
    pending flusher 'threads' run, oldest first (each one's real run() waits for the front itself, dumps and leaves the queue)."""

    def __init__(self, pending):
        self.pending = pending

    def __enter__(self):
        return self

    def __exit__(self, *a):
        return False

    def wait_for(self, pred, timeout=None):
        while not pred():
            if not self.pending:
                raise RuntimeError("model: a waiter is not at the front of the queue and no flusher is pending (deadlock)")
            self.pending.pop(0).run()
        return True

    def wait(self, timeout=None):
        if self.pending:
            self.pending.pop(0).run()

    def notify_all(self):
        pass

    def notify(self, n=1):
        pass


def _history(bufsize, histcontrol, ops, defer=False):
    fs = FS()
    _install(fs, histcontrol)
    pending: List = []
    if defer:
        # background flushers do not run when started: they run when a reader has to wait for them, at a `run_pending` step, or at the end
        hj.JsonHistoryFlusher.start = lambda self: pending.append(self)
    h = hj.JsonHistory(filename=FN, sessionid="s", buffersize=bufsize, gc=False)
    if defer:
        h._cond = _ModelCond(pending)
    hc = set(histcontrol.split(",")) if histcontrol else set()
    file_ref: List[dict] = []
    buf_ref: List[dict] = []
    last_text = ["ls"]
    n = 0

    def do_flush():
        last = None
        for c in buf_ref:
            if "ignoredups" in hc and c["inp"] == last:
                continue
            if "ignoreerr" in hc and c["rtn"] != 0:
                continue
            file_ref.append(c)
            last = c["inp"]
        del buf_ref[:]

    for step, op in enumerate(ops):
        if op == "flush":
            h.flush()
            do_flush()
        elif op == "run_pending":
            while pending:
                pending.pop(0).run()
        elif op == "clear":
            # `history clear`: the session starts over, in memory and on disk; what is stored afterwards reads back like in a new session
            h.clear()
            del file_ref[:]
            del buf_ref[:]
        else:
            n += 1
            text = {"append_a": "ls", "append_same": last_text[0], "append_b_fail": "pwd", "append_spc": " secret", "append_c": "echo 1"}[op]
            rtn = 2 if op == "append_b_fail" else 0
            cmd = {"inp": text + "\n", "rtn": rtn, "ts": [float(n), float(n) + 0.5], "cwd": "/w", "out": "o"}
            if op == "append_spc":
                cmd["spc"] = True
            h.append(dict(cmd))
            if not (op == "append_spc" and "ignorespace" in hc):
                buf_ref.append({"inp": cmd["inp"], "rtn": rtn, "ts": cmd["ts"]})
                if len(buf_ref) >= bufsize:
                    do_flush()
            last_text[0] = text
        # ---- after every step: len / index / negative index / slice / iteration agree with the reference ----
        ref = file_ref + buf_ref
        tag = f"bufsize={bufsize} HISTCONTROL={histcontrol!r} after {ops[: step + 1]}"
        if len(h) != len(ref):
            return f"len: {tag}: len(history) = {len(h)}, {len(ref)} commands are readable ({[c['inp'] for c in ref]})"
        for i in range(len(ref)):
            for idx in (i, i - len(ref)):
                try:
                    got = (h.inps[idx], h.rtns[idx], h.tss[idx])
                except Exception as e:  # noqa: BLE001
                    return f"index: {tag}: history[{idx}] raises {type(e).__name__}: {e}"
                want = (ref[i]["inp"], ref[i]["rtn"], ref[i]["ts"])
                if (got[0], got[1], list(got[2])) != (want[0], want[1], list(want[2])):
                    return f"index: {tag}: entry {idx} reads {got}, expected {want}"
        got_all = list(h.inps[:])
        if got_all != [c["inp"] for c in ref]:
            return f"slice: {tag}: inps[:] = {got_all}, expected {[c['inp'] for c in ref]}"
        if len(ref) >= 2 and list(h.inps[1:]) != [c["inp"] for c in ref[1:]]:
            return f"slice: {tag}: inps[1:] wrong"
        items = [it["inp"] for it in h.items()]
        if [x.rstrip("\n") for x in items] != [c["inp"].rstrip("\n") for c in ref]:
            return f"iteration: {tag}: items() = {items}"
    while pending:
        pending.pop(0).run()
    # ---- on-disk file decodes to the flushed commands ----
    if FN in fs.files:
        import json

        whole = json.loads(fs.files[FN].decode("utf-8"))["data"]["cmds"]
        if [c["inp"] for c in whole] != [c["inp"] for c in file_ref]:
            return f"disk: file holds {[c['inp'] for c in whole]}, flushed {[c['inp'] for c in file_ref]}"
    return None


def ob_buffer(bufsize: int, hc_i: int, n: int, o0: int, o1: int, o2: int, o3: int, o4: int) -> Optional[str]:
    if not (1 <= bufsize <= 3 and 0 <= hc_i < len(HC) and 1 <= n <= 5):
        raise Skip()
    os_ = [o0, o1, o2, o3, o4]
    for i in range(5):
        if i < n:
            if not (0 <= os_[i] < len(OPS)):
                raise Skip()
        elif os_[i] != 0:
            raise Skip()
    ops = [_pick(OPS, os_[i]) for i in range(n)]
    bs = _pick([1, 2, 3], bufsize - 1)
    hc = _pick(HC, hc_i)
    r = concretely(_history, bs, hc, ops)
    if r:
        k, rest = r.split(":", 1)
        return viol(k, lambda: rest.strip())
    return None


POPS = ["append_a", "append_c", "append_b_fail", "flush", "run_pending"]


def ob_pending(bufsize: int, n: int, o0: int, o1: int, o2: int, o3: int, o4: int) -> Optional[str]:
    """Reads while background flushers are still pending (sequentialised: a pending flusher runs when a reader waits for it,
    at an explicit step, or at the end). No $HISTCONTROL filtering, no clear."""
    if not (1 <= bufsize <= 3 and 1 <= n <= 5):
        raise Skip()
    os_ = [o0, o1, o2, o3, o4]
    for i in range(5):
        if i < n:
            if not (0 <= os_[i] < len(POPS)):
                raise Skip()
        elif os_[i] != 0:
            raise Skip()
    ops = [_pick(POPS, os_[i]) for i in range(n)]
    r = concretely(_history, _pick([1, 2, 3], bufsize - 1), "", ops, True)
    if r:
        k, rest = r.split(":", 1)
        return viol(k, lambda: rest.strip())
    return None


# ----------------------------------------------------------------------------
# index / byte offsets with real Unicode through the real encoder
# ----------------------------------------------------------------------------
UNI = ["ls", "é", "日本語", 'a"b', "\\", "x\ny", " ", "😀", "\x00\x7f", "ß", "a\tb"]


def _unicode(t0, t1, t2, ncmds):
    fs = FS()
    _install(fs, "")
    texts = [t0, t1, t2][:ncmds]
    h = hj.JsonHistory(filename=FN, sessionid="s-é", buffersize=10, gc=False)
    for i, t in enumerate(texts):
        h.append({"inp": t, "rtn": i, "ts": [1.0 + i, 2.0 + i], "cwd": "/w/" + t})
    h.flush()
    raw = fs.files[FN]
    # every value addressed through the embedded index (byte offsets on the real encoding)
    for i, t in enumerate(texts):
        for field, want in (("inp", t), ("rtn", i), ("cwd", "/w/" + t), ("ts", [1.0 + i, 2.0 + i])):
            try:
                f = fs.open(FN)
                lj = xlj.LazyJSON(f, reopen=False)
                got = lj["cmds"][i][field]
                if isinstance(got, xlj.LJNode):
                    got = got.load()
                lj.close()
            except Exception as e:  # noqa: BLE001
                return f"index: commands {texts!r}: reading cmds[{i}][{field!r}] through the index raises {type(e).__name__}: {e}"
            if got != want:
                return f"index: commands {texts!r}: cmds[{i}][{field!r}] reads {got!r}, stored {want!r}"
        if h.inps[i] != t:
            return f"index: commands {texts!r}: history.inps[{i}] = {h.inps[i]!r}"
    f = fs.open(FN)
    lj = xlj.LazyJSON(f, reopen=False)
    if lj["sessionid"] != "s-é" or len(lj["cmds"]) != len(texts):
        return f"index: commands {texts!r}: top-level values misaddressed"
    if lj.load()["cmds"][-1]["inp"] != texts[-1]:
        return "index: full load disagrees"
    # the header addresses index and data sections in bytes
    import json

    iloc, ilen, dloc, dlen = json.loads(raw[9:57].decode())

    try:
        json.loads(raw[iloc:iloc + ilen].decode("utf-8"))
        json.loads(raw[dloc:dloc + dlen].decode("utf-8"))
    except Exception as e:  # noqa: BLE001
        return f"index: commands {texts!r}: header locs do not delimit the index/data sections in bytes ({type(e).__name__})"
    return None


def ob_unicode(ncmds: int, a: int, b: int, c: int) -> Optional[str]:
    if not (1 <= ncmds <= 3):
        raise Skip()
    ix = [a, b, c]
    for i in range(3):
        if i < ncmds:
            if not (0 <= ix[i] < len(UNI)):
                raise Skip()
        elif ix[i] != 0:
            raise Skip()
    ts = [_pick(UNI, ix[i]) if i < ncmds else "" for i in range(3)]
    r = concretely(_unicode, ts[0], ts[1], ts[2], _pick([1, 2, 3], ncmds - 1))
    if r:
        k, rest = r.split(":", 1)
        return viol(k, lambda: rest.strip())
    return None


# ----------------------------------------------------------------------------
# offset arithmetic for arbitrary leaf renderings (symbolic strings)
# ----------------------------------------------------------------------------
class _FakeJSON:
    """json facade for lazyjson: leaves render to the symbolic strings given by the harness"""

    def __init__(self, table):
        self.table = table
        self.real = __import__("json")

    def dumps(self, obj, sort_keys=False, **k):
        if isinstance(obj, (dict, list)):
            return self.real.dumps(obj, sort_keys=sort_keys)
        return self.table[obj]

    def loads(self, s):
        return self.real.loads(s)


def ob_offsets(r0: str, r1: str, r2: str, r3: str, nested: bool) -> Optional[str]:
    """_to_json_with_size / index: data[offset:offset+size] is exactly each node's rendering"""
    rs = [r0, r1, r2, r3]
    for r in rs:
        if not (1 <= len(r) <= 5):
            raise Skip()
    table = {"k0": '"k0"', "k1": '"k1"', "v0": r0, "v1": r1, 7: r2, "v3": r3}
    saved = xlj.json
    xlj.json = _FakeJSON(table)
    try:
        obj = {"k0": ["v0", 7], "k1": "v1"} if not nested else {"k0": [["v0"], {"k1": "v3"}], "k1": 7}
        s, idx = xlj.index(obj, sort_keys=True)
    finally:
        xlj.json = saved
    offs, sizes = idx["offsets"], idx["sizes"]

    def chk(o, z, want, what):
        if s[o:o + z] != want:
            return viol("offset", lambda: f"{what}: data[{o}:{o}+{z}] is {s[o:o + z]!r}, node renders {want!r}; data={s!r}")
        return None

    if not nested:
        for c in (chk(offs["k0"][0], sizes["k0"][0], r0, "k0[0]"), chk(offs["k0"][1], sizes["k0"][1], r2, "k0[1]"),
                  chk(offs["k1"], sizes["k1"], r1, "k1")):
            if c:
                return c
        o, z = offs["k0"][-1], sizes["k0"][-1]
        # the list node spans "[" + r0 + ", " + r2 + "]\n" (checked arithmetically: CrossHair's model of a slice with two
        # symbolic bounds compared to a concatenation is imprecise)
        if z != len(r0) + len(r2) + 5 or o + 1 != offs["k0"][0] or offs["k0"][1] != offs["k0"][0] + len(r0) + 2:
            return viol("offset", lambda: f"list node at {o}+{z}")
    else:
        for c in (chk(offs["k0"][0][0], sizes["k0"][0][0], r0, "k0[0][0]"), chk(offs["k0"][1]["k1"], sizes["k0"][1]["k1"], r3, "k0[1].k1"),
                  chk(offs["k1"], sizes["k1"], r2, "k1")):
            if c:
                return c
    if offs["__total__"] != 0 or sizes["__total__"] != len(s):
        return viol("offset", lambda: "total size wrong")
    return None


OBLIGATIONS = [
    Obligation("buffer", ob_buffer,
               bounds="histories of 1..4 (quick) / 5 (thorough) operations out of {append ls, append same-as-previous, append a failing "
                      "command, append a space-prefixed command, append another, flush, clear}; buffer size 1..3; five $HISTCONTROL settings; "
                      "after every operation len / [i] / [-i] / slices / items() and finally the decoded file are compared",
               pre=["1 <= bufsize <= 3", "0 <= hc_i < 5", "0 <= o0 < 7", "0 <= o1 < 7", "0 <= o2 < 7", "0 <= o3 < 7", "0 <= o4 < 7"],
               parts={"quick": [dict(n=k, bufsize=b) for k in (1, 2, 3) for b in (1, 2, 3)] + [dict(n=4, bufsize=b, hc_i=h) for b in (1, 2, 3) for h in range(5)],
                      "thorough": [dict(n=k, bufsize=b) for k in (1, 2, 3) for b in (1, 2, 3)] + [dict(n=4, bufsize=b, hc_i=h) for b in (1, 2, 3) for h in range(5)]
                                  + [dict(n=5, bufsize=b, hc_i=h, o0=o) for b in (1, 2, 3) for h in range(5) for o in range(6)]},
               timeout={"quick": 240, "thorough": 1500}, symbolic="operation indices, buffer size, HISTCONTROL index"),
    Obligation("pending_flush", ob_pending,
               bounds="histories of 1..4 (quick) / 5 (thorough) operations out of {append x3, flush, let the pending flushers run}; buffer size 1..3; background "
                      "flushers are queued but run only when a reader waits for them, at an explicit step or at the end (cooperative sequentialisation "
                      "of the real queue/condition protocol): every read after every step returns the right entry",
               pre=["1 <= bufsize <= 3", "0 <= o0 < 5", "0 <= o1 < 5", "0 <= o2 < 5", "0 <= o3 < 5", "0 <= o4 < 5"],
               parts={"quick": [dict(n=k) for k in (1, 2, 3, 4)], "thorough": [dict(n=k) for k in (1, 2, 3, 4, 5)]},
               timeout={"quick": 240, "thorough": 900}, symbolic="operation indices, buffer size"),
    Obligation("unicode_index", ob_unicode,
               bounds="1..3 commands drawn from 11 texts (ASCII, 2/3/4-byte UTF-8, quotes, backslash, newline, U+2028, NUL/DEL, tab) through the "
                      "real json encoder into a UTF-8 file; every value read back through the embedded index by byte offset",
               pre=["0 <= a < 11", "0 <= b < 11", "0 <= c < 11"], parts={"quick": [dict(ncmds=1), dict(ncmds=2)] + [dict(ncmds=3, a=i) for i in (1, 2, 7)],
                                                                         "thorough": [dict(ncmds=1), dict(ncmds=2)] + [dict(ncmds=3, a=i) for i in range(11)]},
               timeout={"quick": 200, "thorough": 900}, symbolic="text index per command"),
    Obligation("offsets", ob_offsets,
               bounds="two object shapes (flat, nested); every leaf's rendering a free symbolic string of 1..5 characters: offsets/sizes in "
                      "the index address exactly that rendering",
               pre=["1 <= len(r0) <= 5", "1 <= len(r1) <= 5", "1 <= len(r2) <= 5", "1 <= len(r3) <= 5"],
               parts={"quick": [dict(nested=False), dict(nested=True)]}, timeout={"quick": 240, "thorough": 900},
               symbolic="four symbolic strings (leaf renderings)"),
]
