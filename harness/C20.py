"""C20 - the job table is always consistent with the processes it tracks.

Real code executed symbolically: xonsh/procs/jobs.py
  add_job, get_next_job_number, _clear_dead_jobs, get_next_task, get_task,
  resume_job, fg, bg, disown_fn, jobs, format_job_string, print_one_job,
  use_main_jobs, get_jobs, get_tasks, update_job_attr;
  xonsh/procs/specs.py _run_command_pipeline (registration rule).
One inductive step of every operation from an arbitrary consistent table.
"""

from __future__ import annotations

import collections
import io
import itertools
from typing import List, Optional

import xonsh.procs.jobs as J
import xonsh.procs.specs as S
from xonsh.built_ins import XSH

from vf.api import Obligation, Skip, viol

OPAQUE_NUMBER_FORMAT = True

STUBS = [
    "job['obj'] -> ModelProc whose poll() is None (alive) or 0 (finished) by a symbolic flag",
    "job['pipeline'].resume -> recorder; jobs._continue -> recorder; XSH.env -> dict with XONSH_INTERACTIVE False and symbolic AUTO_CONTINUE",
    "print (as seen from xonsh.procs.jobs) -> writes the joined text to the given file object",
    "worker thread: jobs._jobs_thread_local.tasks/jobs are set to a second table before the call (what get_tasks/get_jobs "
    "would have created on an alias thread)",
    "_run_command_pipeline: CommandPipeline/HiddenCommandPipeline -> model object with proc/procs/spec/term_pgid/suspended",
]
ASSUMPTIONS = [
    "an arbitrary consistent table: distinct job numbers, MRU deque a permutation of them (the invariant every operation must re-establish)",
    "a job is finished iff its process object's poll() returns a value",
]
OUTSIDE = [
    "real concurrent access from alias threads and the SIGHUP handler (operations are atomic steps here)",
    "more than 4 jobs / job numbers above 6",
]


class ModelProc:
    def __init__(self, alive):
        self.alive = alive
        self.pid = 100

    def poll(self):
        return None if self.alive else 0


class ModelPipeline:
    def __init__(self, log, num):
        self.log, self.num = log, num

        class _Spec:
            captured = "hiddenobject"

        self.spec = _Spec()

    def resume(self, job, tee_output=True):
        self.log.append(("resume", self.num, tee_output))


class _Env(dict):
    pass


def _print(*a, file=None, **k):
    # CrossHair's print() patch deep-copies its `file` argument, so output would land in a copy
    if file is not None:
        file.write(" ".join(a) + "\n")


J.print = _print
_CONT: List = []
J._continue = lambda job: _CONT.append(job["num_"])

NUMSETS = {
    "quick": [(), (1,), (2,), (1, 2), (2, 3), (1, 2, 3), (2, 3, 5)],
    "thorough": [c for n in range(0, 4) for c in itertools.combinations(range(1, 6), n)] + [(1, 2, 3, 4), (2, 3, 5, 6)],
}


def _pick(pool, i):
    j = 0
    while j < len(pool) - 1 and i != j:
        j += 1
    return pool[j]


def _perms(nums):
    return list(itertools.permutations(nums))


def _status(flag):
    # a concrete False (status irrelevant to the operation under test) must not fork the path
    if flag is False:
        return "running"
    return "stopped" if flag else "running"


def _setup(nums, perm_i, alive, bgs, stopped, log, worker=False, auto_cont=False):
    order = _pick(_perms(nums), perm_i)
    jobs = {}
    for k, n in enumerate(nums):
        jobs[n] = {
            "cmds": [["cmd%d" % n]], "pids": [100 + n], "obj": ModelProc(alive[k]), "bg": bgs[k],
            "status": _status(stopped[k]), "pipeline": ModelPipeline(log, n),
            "pgrp": None, "num_": n,
        }
    XSH.all_jobs = jobs
    J._tasks_main.clear()
    J._tasks_main.extend(order)
    XSH.env = _Env(XONSH_INTERACTIVE=False, AUTO_CONTINUE=auto_cont)
    del _CONT[:]
    if worker:
        # what an alias thread would hold: its own (empty or small) tables
        J._jobs_thread_local.tasks = collections.deque([9])
        J._jobs_thread_local.jobs = {9: {"cmds": [["w"]], "pids": [1], "obj": ModelProc(True), "bg": True,
                                         "status": "running", "pipeline": ModelPipeline(log, 9), "num_": 9}}
    else:
        J._jobs_thread_local.tasks = J._tasks_main
        J._jobs_thread_local.jobs = XSH.all_jobs
    return list(order), jobs


def _consistent(tag):
    tasks = list(J._tasks_main)
    jobs = XSH.all_jobs
    if len(set(tasks)) != len(tasks):
        return viol("mru-duplicate", lambda: f"{tag}: MRU order {tasks} has duplicates")
    if set(tasks) != set(jobs):
        return viol("tables-diverge", lambda: f"{tag}: MRU order {tasks} vs job numbers {sorted(jobs)}")
    return None


def _worker_restored(tag):
    t, j = J._jobs_thread_local.tasks, J._jobs_thread_local.jobs
    if t is J._tasks_main or j is XSH.all_jobs or list(t) != [9] or sorted(j) != [9]:
        return viol("worker-tables", lambda: f"{tag}: worker thread's own tables not restored: {list(t)} {sorted(j)}")
    return None


def _flags(n, a, b, c):
    if len(a) != n or len(b) != n or len(c) != n:
        raise Skip()
    return a, b, c


# ----------------------------------------------------------------------------
def ob_add(nums: tuple, perm_i: int, alive: List[bool], bgs: List[bool], stopped: List[bool],
           new_bg: bool, susp: bool) -> Optional[str]:
    n = len(nums)
    _flags(n, alive, bgs, stopped)
    if not (0 <= perm_i < max(1, len(_perms(nums)))):
        raise Skip()
    log: List = []
    stopped = [False] * n
    order, jobs = _setup(nums, perm_i, alive, bgs, stopped, log)
    info = {"cmds": [["new"]], "pids": [7], "obj": ModelProc(True), "bg": new_bg,
            "pipeline": ModelPipeline(log, 0), "pgrp": None, "num_": 0}
    if susp:
        info["status"] = "suspended"
    J.add_job(info)
    live = [t for t in order if alive[nums.index(t)]]
    exp_num = 1
    while exp_num in live:
        exp_num += 1
    tasks = list(J._tasks_main)
    if not tasks or tasks[0] != exp_num or XSH.all_jobs.get(exp_num) is not info:
        return viol("numbering", lambda: f"table {order} alive={alive}: new job registered as {tasks[:1]}, lowest free is {exp_num}")
    if tasks[1:] != live:
        return viol("purge", lambda: f"after add_job MRU {tasks}, expected {[exp_num] + live}")
    if info["status"] != ("suspended" if susp else "running"):
        return viol("status", lambda: "status not recorded")
    return _consistent("add_job")


ARGS = ["none", "+", "-", "num", "bad", "two"]


def ob_resume(nums: tuple, wording: int, worker: bool, perm_i: int, alive: List[bool], bgs: List[bool],
              stopped: List[bool], argk: int, num: int) -> Optional[str]:
    """fg / bg with every argument form."""
    n = len(nums)
    _flags(n, alive, bgs, stopped)
    if not (0 <= perm_i < max(1, len(_perms(nums))) and 0 <= argk < len(ARGS) and 0 <= num <= 7 and 0 <= wording < 2):
        raise Skip()
    if wording == 0 and worker:
        raise Skip()  # fg is unthreadable: always runs on the main thread
    log: List = []
    stopped = [False] * n  # resume_job overwrites the status; its previous value is never read
    order, jobs = _setup(nums, perm_i, alive, bgs, stopped, log, worker=worker)
    kind = _pick(ARGS, argk)
    numv = _pick(list(range(8)), num) if kind == "num" else 0
    if kind != "num" and num != 0:
        raise Skip()
    args = {"none": [], "+": ["+"], "-": ["-"], "num": [str(numv)], "bad": ["x1"], "two": ["1", "2"]}[kind]
    fn = J.fg if wording == 0 else J.bg
    res = fn(list(args))
    live = [t for t in order if alive[nums.index(t)]]
    # reference selection
    sel = None
    if live and kind in ("none", "+"):
        sel = live[0]
    elif live and kind == "-":
        sel = live[1] if len(live) > 1 else None
    elif live and kind == "num":
        sel = numv if numv in live else None
    tasks = list(J._tasks_main)
    c = _consistent("fg" if wording == 0 else "bg")
    if c:
        return c
    if worker:
        c = _worker_restored("bg")
        if c:
            return c
    if sel is None:
        if res is None or not res[1]:
            return viol("no-error", lambda: f"table {order} alive={alive} args={args}: no error reported, result {res}")
        if tasks != live:
            return viol("error-alters-table", lambda: f"args={args}: error reported but MRU {live} -> {tasks}")
        if log or _CONT:
            return viol("error-resumes", lambda: f"args={args}: error reported but a job was resumed {log} {_CONT}")
        for t in live:
            k = nums.index(t)
            if jobs[t]["bg"] != bgs[k] or jobs[t]["status"] != "running":
                return viol("error-alters-job", lambda: f"args={args}: error reported but job {t} changed")
        return None
    if res is not None:
        return viol("spurious-error", lambda: f"table {order} alive={alive} args={args}: {res}, expected job {sel}")
    exp_tasks = [sel] + [t for t in live if t != sel]
    if tasks != exp_tasks:
        return viol("mru-order", lambda: f"table {order} alive={alive} args={args}: MRU {tasks}, expected {exp_tasks}")
    if log != [("resume", sel, wording == 0)]:
        return viol("wrong-job-resumed", lambda: f"args={args}: resumed {log}, expected job {sel}")
    job = jobs[sel]
    if job["status"] != "running" or job["bg"] != (wording == 1):
        return viol("job-state", lambda: f"job {sel} after {'fg' if wording == 0 else 'bg'}: bg={job['bg']} status={job['status']}")
    if wording == 1 and _CONT != [sel]:
        return viol("bg-continue", lambda: f"bg continued {_CONT}, expected [{sel}]")
    return None


def ob_disown(nums: tuple, worker: bool, perm_i: int, alive: List[bool], bgs: List[bool], stopped: List[bool],
              nids: int, id1: int, id2: int, auto_cont: bool, force: bool) -> Optional[str]:
    n = len(nums)
    _flags(n, alive, bgs, stopped)
    if not (0 <= perm_i < max(1, len(_perms(nums))) and 0 <= nids <= 2 and 0 <= id1 <= 7 and 0 <= id2 <= 7):
        raise Skip()
    log: List = []
    order, jobs = _setup(nums, perm_i, alive, bgs, stopped, log, worker=worker, auto_cont=auto_cont)
    if (nids < 1 and id1 != 0) or (nids < 2 and id2 != 0):
        raise Skip()
    # ids range over the jobs of the table plus two invalid numbers (0 and 7)
    pool = [0] + list(nums) + [7]
    if id1 >= len(pool) or id2 >= len(pool):
        raise Skip()
    ids = []
    if nids >= 1:
        ids.append(_pick(pool, id1))
    if nids >= 2:
        ids.append(_pick(pool, id2))
    res = J.disown_fn(list(ids), force_auto_continue=force)
    tasks = list(J._tasks_main)
    c = _consistent("disown")
    if c:
        return c
    if worker:
        c = _worker_restored("disown")
        if c:
            return c
    targets = ids or (order[:1])
    valid = bool(order) and all(t in order for t in targets)
    is_err = isinstance(res, tuple) and len(res) == 2 and res[0] == "" and bool(res[1])
    if not valid:
        if not is_err:
            return viol("no-error", lambda: f"table {order} disown {ids}: no error reported ({res!r})")
        if tasks != order:
            return viol("error-alters-table", lambda: f"table {order} disown {ids}: error {res[1]!r} reported but table is now {tasks}")
        if _CONT:
            return viol("error-resumes", lambda: f"disown {ids}: error reported but job(s) {_CONT} were continued")
        return None
    if is_err:
        if len(set(targets)) != len(targets):
            # the same job named twice: either outcome (error without effect, or removing it once) is acceptable
            if tasks != order:
                return viol("error-alters-table", lambda: f"table {order} disown {ids}: error {res[1]!r} reported but table is now {tasks}")
            return None
        return viol("spurious-error", lambda: f"table {order} disown {ids}: {res!r}")
    exp = [t for t in order if t not in targets]
    if tasks != exp:
        return viol("wrong-removal", lambda: f"table {order} disown {ids}: MRU now {tasks}, expected {exp}")
    want_cont = sorted(set(targets)) if (auto_cont or force) else []
    if sorted(_CONT) != want_cont:
        return viol("continue", lambda: f"disown {ids} auto_cont={auto_cont} force={force}: continued {_CONT}")
    return None


def ob_jobs_next(nums: tuple, which: int, worker: bool, perm_i: int, alive: List[bool], bgs: List[bool],
                 stopped: List[bool]) -> Optional[str]:
    """`jobs` listing (which=0) and get_next_task (which=1)."""
    n = len(nums)
    _flags(n, alive, bgs, stopped)
    if not (0 <= perm_i < max(1, len(_perms(nums))) and 0 <= which < 2):
        raise Skip()
    if which == 1 and worker:
        raise Skip()
    log: List = []
    if which == 0:
        stopped = [False] * n
    order, jobs = _setup(nums, perm_i, alive, bgs, stopped, log, worker=worker)
    live = [t for t in order if alive[nums.index(t)]]
    if which == 0:
        out = io.StringIO()
        J.jobs(["--posix"], stdout=out)
        lines = [ln for ln in out.getvalue().split("\n") if ln]
        tasks = list(J._tasks_main)
        if tasks != live:
            return viol("purge", lambda: f"jobs: table {order} alive={alive}: MRU afterwards {tasks}, expected {live}")
        if len(lines) != len(live):
            return viol("listing", lambda: f"jobs printed {len(lines)} lines for live jobs {live}: {lines}")
        for ln, t in zip(lines, live):
            if not ln.startswith("[" + str(t) + "]"):
                return viol("listing", lambda: f"jobs line {ln!r} should describe job {t}")
        if worker:
            c = _worker_restored("jobs")
            if c:
                return c
        return _consistent("jobs")
    got = J.get_next_task()
    tasks = list(J._tasks_main)
    cand = [t for t in live if not bgs[nums.index(t)] and not stopped[nums.index(t)]]
    if not cand:
        if got is not None or tasks != live:
            return viol("next-task", lambda: f"get_next_task: no foreground running job in {live} but got {got}, MRU {tasks}")
        return _consistent("get_next_task")
    sel = cand[0]
    if got is not jobs[sel]:
        return viol("next-task", lambda: f"get_next_task: expected job {sel} from {live}")
    if tasks != [sel] + [t for t in live if t != sel]:
        return viol("mru-order", lambda: f"get_next_task: MRU {tasks}")
    return _consistent("get_next_task")


# ----------------------------------------------------------------------------
# registration of every non-proxy pipeline (specs._run_command_pipeline)
# ----------------------------------------------------------------------------
class _MSpec:
    def __init__(self, is_proxy, captured, background):
        self.is_proxy, self.captured, self.background = is_proxy, captured, background


class _MPipe:
    def __init__(self, specs, started):
        self.specs = specs
        self.spec = specs[-1]
        self.procs = [ModelProc(True) for _ in specs] if started else []
        self.proc = self.procs[-1] if started else None
        self.term_pgid = None
        self.suspended = None


def ob_register(proxies: List[bool], hidden: bool, background: bool, started: bool) -> Optional[str]:
    if not (1 <= len(proxies) <= 3):
        raise Skip()
    log: List = []
    _setup((), 0, [], [], [], log)
    captured = "hiddenobject" if hidden else "stdout"
    specs = [_MSpec(p, captured, background) for p in proxies]
    saved = (S.CommandPipeline, S.HiddenCommandPipeline)
    S.CommandPipeline = lambda sp: _MPipe(sp, started)
    S.HiddenCommandPipeline = lambda sp: _MPipe(sp, started)
    try:
        cp = S._run_command_pipeline(specs, [["c"]])
    finally:
        S.CommandPipeline, S.HiddenCommandPipeline = saved
    all_proxy = True
    for p in proxies:
        if not p:
            all_proxy = False
    should = started and not all_proxy
    tasks = list(J._tasks_main)
    if should and tasks != [1]:
        return viol("not-registered", lambda: f"pipeline stages proxy={proxies} bg={background}: not in the job table")
    if should and (XSH.all_jobs[1]["pipeline"] is not cp or XSH.all_jobs[1]["bg"] != background):
        return viol("registered-wrong", lambda: "job entry does not describe the pipeline")
    if not should and tasks:
        return viol("spurious-job", lambda: f"pipeline stages proxy={proxies} started={started}: registered as job {tasks}")
    return _consistent("register")


def _parts(tier, extra=({},)):
    return [dict(nums=ns, **e) for ns in NUMSETS[tier] for e in extra]


_B = "tables of <=3 jobs over numbers 1..5 (quick) / every set of <=3 jobs over 1..5 plus two sets of 4 jobs (thorough); every MRU permutation; per job alive/bg/stopped symbolic"
OBLIGATIONS = [
    Obligation("add_job", ob_add, bounds=_B, pre=["len(alive) == len(nums)", "len(bgs) == len(nums)", "len(stopped) == len(nums)"],
               parts={"quick": _parts("quick"), "thorough": _parts("thorough")}, timeout={"quick": 120, "thorough": 900},
               symbolic="MRU permutation index, per-job flags, new job's bg/suspended"),
    Obligation("resume", ob_resume, bounds=_B + "; fg and bg; argument in {none,+,-,0..7,non-number,two args}; main and worker thread",
               pre=["len(alive) == len(nums)", "len(bgs) == len(nums)", "len(stopped) == len(nums)", "0 <= num <= 7", "0 <= argk < 6"],
               parts={"quick": _parts("quick", [dict(wording=0, worker=False), dict(wording=1, worker=False), dict(wording=1, worker=True)]),
                      "thorough": _parts("thorough", [dict(wording=0, worker=False), dict(wording=1, worker=False), dict(wording=1, worker=True)])},
               timeout={"quick": 200, "thorough": 1200}, symbolic="permutation, flags, argument form and number"),
    Obligation("disown", ob_disown, bounds=_B + "; 0..2 job ids drawn from the table's numbers plus two invalid ones; $AUTO_CONTINUE and --continue symbolic; main and worker thread",
               pre=["len(alive) == len(nums)", "len(bgs) == len(nums)", "len(stopped) == len(nums)", "0 <= nids <= 2", "0 <= id1 <= 7", "0 <= id2 <= 7"],
               parts={"quick": _parts("quick", [dict(worker=w, nids=k) for w in (False, True) for k in range(3)]),
                      "thorough": _parts("thorough", [dict(worker=w, nids=k) for w in (False, True) for k in range(3)])},
               timeout={"quick": 240, "thorough": 1200}, symbolic="permutation, flags, ids"),
    Obligation("jobs_next", ob_jobs_next, bounds=_B + "; `jobs --posix` listing and get_next_task",
               pre=["len(alive) == len(nums)", "len(bgs) == len(nums)", "len(stopped) == len(nums)"],
               parts={"quick": _parts("quick", [dict(which=0, worker=False), dict(which=0, worker=True)])
                      + [dict(nums=ns, which=1, worker=False) for ns in NUMSETS["quick"] if len(ns) < 3 or ns == (1, 2, 3)],
                      "thorough": _parts("thorough", [dict(which=0, worker=False), dict(which=0, worker=True), dict(which=1, worker=False)])},
               timeout={"quick": 400, "thorough": 900}, symbolic="permutation, flags"),
    Obligation("register", ob_register, bounds="pipelines of 1..3 stages, each stage proxy or process, captured kind, background, started or not",
               pre=["1 <= len(proxies) <= 3"], timeout={"quick": 60, "thorough": 120},
               symbolic="per-stage is_proxy flags, hidden, background, started"),
]
