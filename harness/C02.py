"""C02 - Python wins: code whose names are all bound runs as Python, never as a command.

Real code executed: xonsh/execer.py Execer.parse (three phases) / compile / exec; xonsh/parsers/ast.py CtxAwareTransformer
(ctxvisit, visit_* aggregators, is_in_scope, ctxadd/ctxremove, try_subproc_toks); xonsh/parsers/base.py
_SubprocChainRaiseWrapper; the real parser on every generated program.
Symbolic (finite domain, forced case split): which binder form introduces a name, at which scope depth, which names
the binder / del / use statements mention (aliasing pattern over session-bound, unbound, builtin and fresh names),
and which command-looking shape the use statement has.  CPython itself is the oracle for "is the name bound here".
"""

from __future__ import annotations

import ast
import builtins
from typing import List, Optional

from vf.api import Obligation, Skip, concretely, viol
from vf.session import load_session

XSH = load_session()

STUBS = ["none on the decision path: the real Execer.parse runs on real program text; nothing is executed by xonsh in the scope obligations "
         "(CPython's exec of the same text, with commands replaced by no-ops, is the binding oracle)"]
ASSUMPTIONS = [
    "oracle direction: if CPython evaluates the use statement without NameError/UnboundLocalError then xonsh must leave that statement "
    "exactly as CPython parses it; nothing is demanded when CPython raises (binding is judged lexically by xonsh), except after `del`",
    "tree identity is ast.dump without locations; each skeleton is first checked to be dump-identical when every name is bound "
    "(skeletons on which xonsh's parser itself deviates from CPython are C01's concern and are dropped, listed in evidence)",
]
OUTSIDE = ["phase 1 deciding that Python-looking text parses as Python (C01)", "the text produced by an actual wrap (C03)",
           "programs beyond the generated skeleton family"]

NAMES = ["sess", "unb", "len", "xx", "yy"]  # session-bound, unbound, builtin, fresh, fresh
SESSION = {"sess": 1, "__cm__": None, "__noop__": None}

# binder forms: {N} is the bound name; each is a complete statement (block)
BINDERS = [
    ("none", "pass"),
    ("assign", "{N} = 1"),
    ("tuple_assign", "{N}, _t = 1, 2"),
    ("ann_assign", "{N}: int = 1"),
    ("aug_assign", "{N} = 1\n{N} += 1"),
    ("import_as", "import os as {N}"),
    ("from_import", "from os import path as {N}"),
    ("import_dotted", "import os.path as {N}"),
    ("def", "def {N}():\n    pass"),
    ("class", "class {N}:\n    pass"),
    ("for", "for {N} in [1]:\n    pass"),
    ("with_as", "with __cm__() as {N}:\n    pass"),
    ("except_as", "try:\n    raise ValueError()\nexcept ValueError as {N}:\n    pass"),
    ("walrus", "({N} := 1)"),
    ("comprehension", "[{N} for {N} in [1]]"),
    ("lambda", "_l = lambda {N}: {N}"),
    ("command_first", "echo hi"),  # a real command statement first (CPython side: `pass`)
    ("command_in_def", "def _cmd():\n    echo hi"),
    ("captured_first", "_o = $(echo hi)"),
    ("nested_def_param", "def _g({N}):\n    return {N}"),
    ("global_in_def", "def _h():\n    global {N}\n    {N} = 1\n_h()"),
    ("match_capture", "match 1:\n    case {N}:\n        pass"),
    ("inner_del", "def _k({N}):\n    del {N}\n_k(1)"),
    ("class_attr_del", "class _C:\n    {N} = 1\n    del {N}"),
    ("star_assign", "*{N}, _t = [1, 2]"),
    ("for_else", "for _i in []:\n    pass\nelse:\n    {N} = 1"),
    ("try_finally", "try:\n    {N} = 1\nfinally:\n    pass"),
    ("while_assign", "while True:\n    {N} = 1\n    break"),
    ("if_assign", "if True:\n    {N} = 1"),
    ("with_tuple", "with __cm__() as ({N}, _t):\n    pass"),
    ("import_plain_dotted", "import {N}.path"),  # binds the top-level package name
    ("nested_tuple", "_a, (_t, {N}) = 1, (2, 3)"),
    ("type_alias", "type {N} = int"),
    # `global` two scopes deep: the name is bound at module level (= in the statement's scope at depth "module")
    ("global_in_method", "class _G:\n    def m(self):\n        global {N}\n        {N} = 1\n_G().m()"),
    ("global_in_nested_def", "def _o2():\n    def _i2():\n        global {N}\n        {N} = 1\n    _i2()\n_o2()"),
]
# use statements: command-looking Python expressions over holes {A} and {B}
USES = [
    ("minus_flag", "{A} -{B}"),
    ("pipe", "{A} | {B}"),
    ("and", "{A} and {B}"),
    ("or_assign", "_ok = {A} or {B}"),
    ("not", "not {A}"),
    ("bare", "{A}"),
    ("call", "{A}({B})"),
    ("gt", "{A} > {B}"),
    ("attr", "{A}.{B}"),
    ("slash", "{A} /{B}"),
]
DEPTHS = ["module", "function", "class", "nested_function"]


def _fake_packages():
    import sys
    import types

    for n in NAMES:
        pkg, sub = types.ModuleType(n), types.ModuleType(n + ".path")
        pkg.__path__ = []
        pkg.path = sub
        sys.modules.setdefault(n, pkg)
        sys.modules.setdefault(n + ".path", sub)


_fake_packages()


_PY_TEXT = {"command_first": "pass", "command_in_def": "def _cmd():\n    pass", "captured_first": "_o = ''"}


def build(binder_i, depth_i, use_i, n1, n2, a, b, with_del, python_side=False):
    """-> (program text, index path of the use statement)"""
    bname, btext = BINDERS[binder_i]
    if python_side and bname in _PY_TEXT:
        btext = _PY_TEXT[bname]
    N1, N2, A, B = NAMES[n1], NAMES[n2], NAMES[a], NAMES[b]
    body = btext.format(N=N1).split("\n")
    if with_del:
        body.append(f"del {N2}")
    body.append(USES[use_i][1].format(A=A, B=B))
    depth = DEPTHS[depth_i]
    if depth == "module":
        lines = body
        path = ("module",)
    elif depth == "function":
        lines = ["def _f():"] + ["    " + ln for ln in body] + ["_f()"]
        path = ("function",)
    elif depth == "class":
        lines = ["class _K:"] + ["    " + ln for ln in body]
        path = ("class",)
    else:
        lines = ["def _o():", "    def _i():"] + ["        " + ln for ln in body] + ["    _i()", "_o()"]
        path = ("nested",)
    return "\n".join(lines) + "\n", path


def _stmts(body_lines):
    return ast.parse("\n".join(body_lines)).body


def _use_node(tree, path):
    if path[0] == "module":
        return tree.body[-1]
    if path[0] == "function":
        return tree.body[0].body[-1]
    if path[0] == "class":
        return tree.body[0].body[-1]
    return tree.body[0].body[0].body[-1]


class _CM:
    def __call__(self):
        return self

    def __enter__(self):
        return (1, 2)

    def __exit__(self, *a):
        return False


class _Noop:
    def __sub__(self, o):
        return 0

    def __neg__(self):
        return 0


def _python_binds(src, path, use_names):
    """Run the program under plain CPython with the use statement replaced by a probe reading the same names."""
    tree = ast.parse(src)
    node_parent_body = None
    if path[0] == "module":
        node_parent_body = tree.body
    elif path[0] in ("function", "class"):
        node_parent_body = tree.body[0].body
    else:
        node_parent_body = tree.body[0].body[0].body
    probe = ast.parse("__probe__(lambda: (" + ", ".join(use_names) + ",))()").body[0]
    # read the names in the statement's own scope (not inside the lambda's): evaluate a tuple directly
    probe = ast.parse("__seen__.append((" + ", ".join(use_names) + ",))").body[0]
    node_parent_body[-1] = probe
    ast.fix_missing_locations(tree)
    seen: List = []
    g = dict(SESSION)
    g["__cm__"] = _CM()
    g["__noop__"] = _Noop()
    g["l"] = 1
    g["__seen__"] = seen
    g["__builtins__"] = builtins
    try:
        exec(compile(tree, "<cpy>", "exec"), g)
    except (NameError, UnboundLocalError):
        return False
    except Exception:  # noqa: BLE001
        return None  # the skeleton itself misbehaves under CPython: no verdict
    return bool(seen)


def _xparse(src):
    """exactly what Execer.compile does: builtins and the session's names are in scope; session names shield builtins"""
    user_names = set(SESSION) | {"l"}
    return XSH.execer.parse(src, set(dir(builtins)) | user_names, mode="exec", user_names=user_names)


def _dump(node):
    return ast.dump(node, include_attributes=False)


_BASE_OK = {}


def _skeleton_identical(binder_i, depth_i, use_i):
    """With every name bound, xonsh and CPython agree on the use statement (else: C01 territory)"""
    key = (binder_i, depth_i, use_i)
    if key not in _BASE_OK:
        src, path = build(binder_i, depth_i, use_i, 0, 0, 0, 0, False)
        try:
            # phase 1 only (no context-aware transformation): isolates parser fidelity (C01) from the scope logic under test
            xt = XSH.execer.parse(src, set(), mode="exec", transform=False)
            pysrc, _ = build(binder_i, depth_i, use_i, 0, 0, 0, 0, False, python_side=True)
            ok = xt is not None and _dump(_use_node(xt, path)) == _dump(_use_node(ast.parse(pysrc), path))
        except SyntaxError:
            ok = False
        _BASE_OK[key] = ok
    return _BASE_OK[key]


def _check(binder_i, depth_i, use_i, n1, n2, a, b, with_del):
    if not _skeleton_identical(binder_i, depth_i, use_i):
        return None
    src, path = build(binder_i, depth_i, use_i, n1, n2, a, b, with_del)
    use_kind = USES[use_i][0]
    A, B = NAMES[a], NAMES[b]
    use_names = [A] if use_kind in ("not", "bare", "attr") else [A, B]
    pysrc, _ = build(binder_i, depth_i, use_i, n1, n2, a, b, with_del, python_side=True)
    try:
        ast.parse(pysrc)
    except SyntaxError:
        return None
    bound = _python_binds(pysrc, path, use_names)
    try:
        xtree = _xparse(src)
    except SyntaxError as e:
        if bound:
            return f"rejected: {src!r}: valid Python whose names are all bound is rejected: {e}"
        return None
    if xtree is None:
        return None
    got = _dump(_use_node(xtree, path))
    want = _dump(_use_node(ast.parse(pysrc), path))
    if bound is True and got != want and "__xonsh__.builtin_cmd(" in ast.unparse(_use_node(xtree, path)) and USES[use_i][0] == "bare":
        # a bare builtin name as a statement is routed through builtin_cmd(), which returns the builtin itself unless
        # $XONSH_BUILTINS_TO_CMD is set: same meaning
        return None
    if bound is True and got != want:
        kind = "python-run-as-command" if "subproc_" in got and "subproc_check_boolop" not in got.split("subproc_captured")[0] else "python-altered"
        if "subproc_captured" in got or "subproc_uncaptured" in got:
            kind = "python-run-as-command"
        return (f"{kind}: {src!r}: CPython evaluates the last statement without NameError (names {use_names} are bound) but xonsh rewrote it: "
                f"{ast.unparse(_use_node(xtree, path))!r}")
    # deleting the name returns later lines to command interpretation (same scope, module level, single binding)
    if (with_del and DEPTHS[depth_i] == "module" and BINDERS[binder_i][0] == "assign" and n1 == n2 == a and NAMES[a] in ("xx", "yy")
            and use_kind in ("minus_flag", "bare") and (use_kind == "bare" or NAMES[b] not in ("xx", "yy") or b == a)):
        if got == want and bound is False:
            return f"del-ignored: {src!r}: the name was deleted but the last line is still treated as Python"
    return None


QUICK = [False]
_SHADOWING = [i for i, b in enumerate(BINDERS) if b[0] in ("inner_del", "class_attr_del", "nested_def_param", "global_in_def", "lambda", "comprehension")]


def _prepare(tier, part):
    QUICK[0] = tier == "quick"


def _pick_int(n, i):
    j = 0
    while j < n - 1 and i != j:
        j += 1
    return j


def ob_scope(binder_i: int, depth_i: int, use_i: int, n1: int, n2: int, a: int, b: int, with_del: bool) -> Optional[str]:
    if not (0 <= binder_i < len(BINDERS) and 0 <= depth_i < len(DEPTHS) and 0 <= use_i < len(USES)
            and 0 <= n1 < 5 and 0 <= n2 < 5 and 0 <= a < 5 and 0 <= b < 5):
        raise Skip()
    if not with_del and n2 != 0:
        raise Skip()
    if QUICK[0] and n1 == 0 and binder_i not in _SHADOWING:
        raise Skip()  # quick: a session-bound binder target behaves like a fresh one, except where an inner scope shadows it
    args = (_pick_int(len(BINDERS), binder_i), _pick_int(len(DEPTHS), depth_i), _pick_int(len(USES), use_i),
            _pick_int(5, n1), _pick_int(5, n2), _pick_int(5, a), _pick_int(5, b), True if with_del else False)
    r = concretely(_check, *args)
    if r:
        k, rest = r.split(":", 1)
        return viol(k, lambda: rest.strip())
    return None


# ----------------------------------------------------------------------------
# all-or-nothing: a syntax error never leaves an input partially executed
# ----------------------------------------------------------------------------
BROKEN = ["__mark__()\n1 +* 2\n", "__mark__()\nif True\n    pass\n", "__mark__()\ndef f(:\n    pass\n", "__mark__()\nx = (1,\n",
          "__mark__()\n  indented = 1\n", "__mark__()\n'''unterminated\n", "__mark__()\nfor in x: pass\n", "__mark__()\nreturn 1 2\n",
          "__mark__()\n$[\n", "__mark__()\n![echo\n"]


def _all_or_nothing(i):
    marks: List = []
    g = {"__mark__": lambda: marks.append(1)}
    try:
        XSH.execer.exec(BROKEN[i], glbs=g, locs=None)
    except SyntaxError:
        if marks:
            return f"partial-execution: {BROKEN[i]!r}: rejected with SyntaxError but the first statement had already run"
    except BaseException:  # noqa: BLE001
        # the input was accepted (the odd line was taken as a command) and failed at run time: nothing to demand
        pass
    return None


def ob_all_or_nothing(i: int) -> Optional[str]:
    if not (0 <= i < len(BROKEN)):
        raise Skip()
    r = concretely(_all_or_nothing, _pick_int(len(BROKEN), i))
    if r:
        k, rest = r.split(":", 1)
        return viol(k, lambda: rest.strip())
    return None


# ----------------------------------------------------------------------------
# names bound by the session (globals, locals, builtins) at the time of *each* compile, across a history of inputs
# ----------------------------------------------------------------------------
WHERE = ["builtins", "globals", "locals"]
WHEN = ["before_first_input", "between_inputs", "bound_then_removed"]
MODES = ["exec", "single"]


def _session_case(where, when, mode, first):
    """One Execer, two inputs.  The name `vfsessn` is bound in `where` at time `when`; the second input is
    `vfsessn -l` (valid Python iff both names are bound) - it must stay Python exactly when CPython could run it."""
    ex = XSH.execer
    glbs, locs = {"l": 2}, {}
    name = "vfsessn"

    def put():
        if where == "builtins":
            setattr(builtins, name, 40)
        elif where == "globals":
            glbs[name] = 40
        else:
            locs[name] = 40

    def drop():
        if where == "builtins":
            if hasattr(builtins, name):
                delattr(builtins, name)
        elif where == "globals":
            glbs.pop(name, None)
        else:
            locs.pop(name, None)

    trees = []
    real_parse = ex.parse

    def parse(*a, **k):
        t = real_parse(*a, **k)
        trees.append(t)
        return t

    ex.parse = parse
    try:
        if when in ("before_first_input", "bound_then_removed"):
            put()
        ex.compile(first, mode=mode, glbs=glbs, locs=locs, filename="<vf-c02-1>")
        if when == "between_inputs":
            put()
        if when == "bound_then_removed":
            drop()
        src = name + " -l\n"
        try:
            ex.compile(src, mode=mode, glbs=glbs, locs=locs, filename="<vf-c02-2>")
        except SyntaxError as e:
            return f"session-name-rejected: history {first!r}, then {src!r} with {name} {when} in {where}: SyntaxError {e}"
    finally:
        del ex.parse
        drop()
    got = _dump(trees[-1])
    py = _dump(ast.parse(src, mode=mode))
    bound = when != "bound_then_removed"
    if bound and got != py:
        return (f"python-run-as-command: input 1 {first!r}; then `{name}` is bound in the session's {where} ({when}) and input 2 "
                f"{src!r} (mode {mode}) reads only bound names, but it is not compiled as the Python expression: {got[:160]}")
    if not bound and got == py:
        return (f"command-run-as-python: `{name}` was removed from the session's {where} before input 2 {src!r}, "
                f"which can only mean a command, but it is compiled as Python")
    return None


FIRST_INPUTS = ["1\n", "l = 2\n", "echo hi\n", "# nothing\n"]


def ob_session_names(where: int, when: int, mode: int, first: int) -> Optional[str]:
    if not (0 <= where < 3 and 0 <= when < 3 and 0 <= mode < 2 and 0 <= first < len(FIRST_INPUTS)):
        raise Skip()
    r = concretely(_session_case, WHERE[_pick_int(3, where)], WHEN[_pick_int(3, when)], MODES[_pick_int(2, mode)],
                   FIRST_INPUTS[_pick_int(len(FIRST_INPUTS), first)])
    if r:
        k, rest = r.split(":", 1)
        return viol(k, lambda: rest.strip())
    return None


_WALRUS = [i for i, b in enumerate(BINDERS) if b[0] == "walrus"][0]
_MATCH = [i for i, b in enumerate(BINDERS) if b[0] == "match_capture"][0]


def _region_walrus(args, v):
    return args.get("binder_i") == _WALRUS and v.startswith("python-run-as-command")


def _region_match(args, v):
    return args.get("binder_i") == _MATCH and v.startswith("python-run-as-command")


_INNER_SUBSET = [i for i, b in enumerate(BINDERS) if b[0] in ("assign", "def", "for", "import_as", "walrus", "nested_def_param", "inner_del", "class_attr_del", "global_in_def", "command_first")]


def _parts(tier):
    out = []
    for bi in range(len(BINDERS)):
        for di in range(len(DEPTHS)):
            if tier == "quick":
                if di < 2 or bi in _INNER_SUBSET:
                    out.append(dict(binder_i=bi, depth_i=di, with_del=False))
                if di == 0:
                    out.append(dict(binder_i=bi, depth_i=di, with_del=True, n1=3))
            else:
                out.append(dict(binder_i=bi, depth_i=di, with_del=False))
                for n1 in range(5):
                    out.append(dict(binder_i=bi, depth_i=di, with_del=True, n1=n1))
    return out


OBLIGATIONS = [
    Obligation("scope", ob_scope,
               bounds=f"{len(BINDERS)} binder forms x 4 scope depths x {len(USES)} command-looking use statements x every assignment of 5 names "
                      "(session-bound, unbound, builtin, 2 fresh) to binder target / del target / the two names the use statement reads; "
                      "quick: del only at module level with a fresh binder target; class / nested-function depth for 9 binder forms; binder target not session-bound",
               pre=["0 <= use_i < 10", "0 <= n1 < 5", "0 <= n2 < 5", "0 <= a < 5", "0 <= b < 5"],
               parts={"quick": _parts("quick"), "thorough": _parts("thorough")}, timeout={"quick": 240, "thorough": 900},
               regions={"C02-walrus-statement-not-binding": _region_walrus, "C02-match-capture-not-binding": _region_match},
               region_parts={"C02-walrus-statement-not-binding": lambda p: p.get("binder_i") == _WALRUS,
                             "C02-match-capture-not-binding": lambda p: p.get("binder_i") == _MATCH},
               prepare=_prepare, symbolic="use form, name indices (aliasing pattern)"),
    Obligation("session_names", ob_session_names,
               bounds="one Execer, two successive inputs through Execer.compile (exec and single mode, 4 first inputs): a name bound in the session's "
                      "builtins / globals / locals before the first input, between the inputs, or bound and removed again; the second input "
                      "`name -l` is compiled as Python exactly when the name is bound at that moment",
               timeout={"quick": 120, "thorough": 300}, symbolic="where, when, mode, first input (finite choices)"),
    Obligation("all_or_nothing", ob_all_or_nothing, bounds=f"{len(BROKEN)} two-statement inputs whose second statement cannot be parsed",
               pre=["0 <= i < 10"], timeout={"quick": 60, "thorough": 60}, symbolic="input index"),
]
