"""C10 - the typed environment survives the trip to child processes and back.

Real code executed: xonsh/environ.py Env.__init__/__setitem__/_set_item/__getitem__/_del_item/detype/swap,
get_validator/get_converter/get_detyper, EnvPath, str_to_env_path/env_path_to_str; xonsh/tools.py to_bool,
bool_to_str, to_bool_or_none, bool_or_none_to_str, to_bool_or_int, bool_or_int_to_str, to_shlvl, is_valid_shlvl,
to_int_or_none, to_history_tuple, history_tuple_to_str, to_dynamic_cwd_tuple, dynamic_cwd_tuple_to_str,
to_logfile_opt, logfile_opt_to_str, csv_to_set, set_to_csv, pathsep_to_upper_seq, seq_to_upper_pathsep;
xonsh/procs/specs.py SubprocSpec.prep_env_subproc.
"""

from __future__ import annotations

from typing import List, Optional

import xonsh.environ as E
import xonsh.tools as T
from xonsh.built_ins import XSH
from xonsh.environ import DELETE_VAR, Env

from vf.api import Obligation, Skip, concretely, viol

STUBS = [
    "nested xonsh = Env(parent.detype()) built in the same process (what a child xonsh does with os.environ at start-up)",
    "events.on_envvar_*.fire -> no-op; $UPDATE_OS_ENVIRON False",
]
ASSUMPTIONS = [
    "list-like values do not contain the separator of their string form (os.pathsep for path lists, ',' for csv sets): documented domain restriction",
    "values are taken from pools of boundary representatives per registered type, except integers and booleans, which are symbolic",
]
OUTSIDE = ["LS_COLORS, token-colour dicts, VarPattern values, locale (LC_*) setters, prompt-toolkit setters (C/locale/regex dependent)",
           "mirroring into the real os.environ", "what a real child process receives beyond the mapping handed to Popen"]

OPAQUE_NUMBER_FORMAT = True


class _NoEvents:
    class _E:
        @staticmethod
        def fire(**kw):
            return None

    on_envvar_new = _E()
    on_envvar_change = _E()


E.events = _NoEvents()


def _pick(pool, i):
    j = 0
    while j < len(pool) - 1 and i != j:
        j += 1
    return pool[j]


# ----------------------------------------------------------------------------
# (a1) integer / boolean cores, symbolically, straight through the converter pairs
# ----------------------------------------------------------------------------
def ob_int_core(v: int, b: bool, which: int) -> Optional[str]:
    if not (0 <= which < 6):
        raise Skip()
    if which == 0:  # ENSURERS["int"]
        if int(str(v)) != v:
            return viol("int", lambda: f"int(str({v}))")
    elif which == 1:  # $SHLVL
        if not T.is_valid_shlvl(v):
            raise Skip()
        if T.to_shlvl(str(v)) != v:
            return viol("shlvl", lambda: f"to_shlvl(str({v})) = {T.to_shlvl(str(v))}")
    elif which == 2:  # $XONSH_DEBUG
        for x in (v, b):
            back = E.to_debug(T.bool_or_int_to_str(x))
            if back != x:
                return viol("bool-or-int", lambda: f"{x!r} -> {T.bool_or_int_to_str(x)!r} -> {back!r}")
    elif which == 3:  # bool
        if T.to_bool(T.bool_to_str(b)) is not b:
            return viol("bool", lambda: f"{b}")
    elif which == 4:  # bool or none
        for x in (b, None):
            back = T.to_bool_or_none(T.bool_or_none_to_str(x))
            if back is not x:
                return viol("bool-or-none", lambda: f"{x!r} -> {back!r}")
    else:  # int or none
        if T.to_int_or_none(str(v)) != v:
            return viol("int-or-none", lambda: f"{v}")
    return None


# ----------------------------------------------------------------------------
# (a2) every registered type through a real parent Env -> detype() -> nested Env
# ----------------------------------------------------------------------------
PATHS = ["/a", "/b c", "", "rel", "/tmp"]
CASES = {
    # variable name -> pool of valid values
    "XONSH_INTERACTIVE": [True, False],
    "DIRSTACK_SIZE": [0, 1, 20, -3, 10 ** 12],
    "VC_BRANCH_TIMEOUT": [0.0, 1.5, 0.1, 1e-07, 1e20, -2.25],
    "HOSTNAME": ["", "a b", "x=y", "ü", " lead", "tab\there"],
    "PATH": None,  # lists over PATHS, filled below
    "MANPATH": None,  # matches the *PATH pattern (env_path)
    "XONSH_HISTORY_FILE": ["/x/y.json", "/tmp/h"],
    "SHLVL": [0, 1, 999],
    "XONSH_DEBUG": [0, 1, 2, True, False],
    "THREAD_SUBPROCS": [True, False, None],
    "ASYNC_PROMPT_THREAD_WORKERS": [1, 8],
    "XONSH_TRACEBACK_LOGFILE": [None, "", "/tmp/vf_c10_log"],
    "DYNAMIC_CWD_WIDTH": [(20.0, "c"), (50.0, "%"), (0.5, "%"), (float("inf"), "c")],
    "XONSH_HISTORY_SIZE": [(8128, "commands"), (0, "files"), (3600, "s"), (1024, "b"), (1.5, "s"), (10.5, "commands"), (2, "s")],
    "HISTCONTROL": [set(), {"ignoredups"}, {"ignoredups", "ignoreerr"}, {"erasedups", "ignorespace", "ignoreerr"}],
    "PATHEXT": [[], [".EXE"], [".EXE", ".BAT"]],
    "XONSH_STDERR_PREFIX": ["", "{RED}"],
    "FREE_VAR": ["", "v", "a:b"],
    "COMPLETIONS_DISPLAY": ["none", "single", "multi"],
    "XONSH_HISTORY_BACKEND": ["json", "sqlite"],
}


def _lists():
    out = [[]]
    for a in PATHS:
        out.append([a])
        for b in PATHS:
            out.append([a, b])
    out += [["/a", "", "/b"], ["/a", "/b", ""], ["", "/a", ""]]
    return out


CASES["PATH"] = _lists()
CASES["MANPATH"] = [["/m", ""], ["", "/m"], ["/m"], []]
VARS = sorted(CASES)


def _norm(v):
    if isinstance(v, E.EnvPath):
        return list(v)
    if isinstance(v, (set, frozenset)):
        return sorted(v)
    return v


def _roundtrip(name, value):
    parent = Env({"UPDATE_OS_ENVIRON": False})
    parent[name] = value
    stored = parent[name]
    det = parent.detype()
    if name not in det:
        return None  # undetypable entries are omitted, not garbled
    s = det[name]
    if not isinstance(s, str):
        return f"garbled: ${name} = {value!r} is handed to children as non-string {s!r}"
    try:
        child = Env(dict(det, UPDATE_OS_ENVIRON=""))
    except Exception as e:  # noqa: BLE001
        kind = "history-tuple-fraction" if name == "XONSH_HISTORY_SIZE" else "nested-startup"
        return f"{kind}: ${name} = {value!r} -> {s!r}: a nested xonsh fails to build its environment: {type(e).__name__}: {e}"
    try:
        back = child[name]
    except KeyError:
        return f"lost: ${name} = {value!r} -> {s!r} is absent in the nested environment"
    a, b = _norm(stored), _norm(back)
    if a != b or type(a) is not type(b) and not (isinstance(a, (int, float)) and isinstance(b, (int, float))):
        kind = "roundtrip"
        if name == "XONSH_HISTORY_SIZE" and (not float(value[0]).is_integer() and value[1] != "s"):
            kind = "history-tuple-fraction"
        if name == "XONSH_TRACEBACK_LOGFILE" and value is None:
            kind = "logfile-none"
        if name in ("PATH", "MANPATH") and list(stored) == [""]:
            kind = "single-empty-path-entry"
        return f"{kind}: ${name} = {stored!r} -> {s!r} -> {back!r} in the nested xonsh"
    return None


def ob_roundtrip(var_i: int, val_i: int) -> Optional[str]:
    if not (0 <= var_i < len(VARS)):
        raise Skip()
    name = _pick(VARS, var_i)
    pool = CASES[name]
    if not (0 <= val_i < len(pool)):
        raise Skip()
    value = pool[_pick(list(range(len(pool))), val_i)]
    r = concretely(_roundtrip, name, value)
    if r:
        k, rest = r.split(":", 1)
        return viol(k, lambda: rest.strip())
    return None


# ----------------------------------------------------------------------------
# (b) the detyped mapping handed to a child reflects the values at launch time
# ----------------------------------------------------------------------------
OPS = ["set_dbg_0", "set_dbg_false", "set_u_1", "set_u_true", "set_list", "mutate_held", "reassign_held", "append_via_get",
       "del_u", "swap_enter", "swap_exit", "mask_enter", "launch", "read_list", "set_same_list", "ov2_enter", "ovmask_enter", "caller_edits_mapping", "read_computed_default"]


def _launch(env):
    """what SubprocSpec.prep_env_subproc hands to Popen vs a recomputation from scratch"""
    got = dict(env.detype())
    saved = env._detyped
    env._detyped = None
    fresh = dict(env.detype())
    env._detyped = saved
    return got, fresh


_MISSING = object()


def _history(ops):
    env = Env({"UPDATE_OS_ENVIRON": False, "LIBPATH": ["/l0"], "U": "u0"})
    XSH.env = env
    held = env["LIBPATH"]
    stack = []
    trail = []
    for op in ops:
        trail.append(op)
        if op == "set_dbg_0":
            env["XONSH_DEBUG"] = 0
        elif op == "set_dbg_false":
            env["XONSH_DEBUG"] = False
        elif op == "set_u_1":
            env["U"] = 1
        elif op == "set_u_true":
            env["U"] = True
        elif op == "set_list":
            env["LIBPATH"] = ["/l1", "/l2"]
        elif op == "mutate_held":
            held.append("/held")
        elif op == "reassign_held":
            env["LIBPATH"] = held
        elif op == "append_via_get":
            env["LIBPATH"].append("/got")
        elif op == "read_list":
            held = env["LIBPATH"]
        elif op == "set_same_list":
            env["LIBPATH"] = list(env["LIBPATH"])
        elif op == "del_u":
            if "U" in env._d:  # (a variable visible only through an overlay cannot be deleted: KeyError, not our subject)
                del env["U"]
        elif op == "swap_enter":
            cm = env.swap(U="swapped", LIBPATH=["/s"])
            cm.__enter__()
            stack.append(cm)
        elif op == "mask_enter":
            cm = env.swap({"U": DELETE_VAR}, overlay={"OV": "1"})
            cm.__enter__()
            stack.append(cm)
        elif op == "ov2_enter":
            # a second alias-style overlay naming the same variables as the first one (nested callable aliases with env)
            cm = env.swap(overlay={"OV": "2", "U": "ov2"})
            cm.__enter__()
            stack.append(cm)
        elif op == "ovmask_enter":
            cm = env.swap(overlay={"OV": DELETE_VAR})
            cm.__enter__()
            stack.append(cm)
        elif op == "caller_edits_mapping":
            # what the git/hg prompt fields and xexec do with the mapping they were handed: add a setting for *their* child
            m = env.detype()
            m["VF_FOR_ONE_CHILD"] = "0"
            m["U"] = "edited-by-caller"
        elif op == "read_computed_default":
            # a variable whose default is computed on first read ($XONSH_SYS_CONFIG_DIR: pure path arithmetic); the read stores it
            env["XONSH_SYS_CONFIG_DIR"]
        elif op == "swap_exit":
            if stack:
                stack.pop().__exit__(None, None, None)
        # typed values first (reading a list-valued variable drops the cache, so this must not come after the launch) ...
        want = {}
        masked = []
        for k in ("U", "LIBPATH", "XONSH_DEBUG", "OV"):
            # peek at the stored value without going through Env.__getitem__ (which drops the cache for list values):
            # the innermost overlay naming the variable decides, then the swapped/stored value
            v = _MISSING
            for o in reversed(env._overlay_stack):
                if k in o:
                    v = o[k]
                    break
            if v is _MISSING and k in env._d:
                v = env._d[k]
            if v is DELETE_VAR:
                masked.append(k)
            elif v is not _MISSING:
                want[k] = env.get_detyper(k)(v)
        # ... then the launch: cached mapping vs recomputation from scratch; the cache stays filled for the next step
        got, fresh = _launch(env)
        if got != fresh:
            diff = {k: (got.get(k), fresh.get(k)) for k in set(got) | set(fresh) if got.get(k) != fresh.get(k)}
            while stack:
                stack.pop().__exit__(None, None, None)
            kind = "held-reference-mutation" if op == "mutate_held" and set(diff) == {"LIBPATH"} else "stale-child-env"
            return f"{kind}: after {trail}: child would receive {diff} (cached, current)"
        if "VF_FOR_ONE_CHILD" in got:
            while stack:
                stack.pop().__exit__(None, None, None)
            return (f"stale-child-env: after {trail}: a caller's private edit of the mapping it got from detype() (VF_FOR_ONE_CHILD, as the "
                    f"git prompt field does with GIT_OPTIONAL_LOCKS) is handed to every later child: {got.get('VF_FOR_ONE_CHILD')!r}, U={got.get('U')!r}")
        for k in masked:
            if k in got:
                while stack:
                    stack.pop().__exit__(None, None, None)
                return f"stale-child-env: after {trail}: ${k} is masked at this point but the child would receive {got.get(k)!r}"
        for k, w in want.items():
            if got.get(k) != w:
                while stack:
                    stack.pop().__exit__(None, None, None)
                return f"stale-child-env: after {trail}: ${k} should be handed on as {w!r} but the child would receive {got.get(k)!r}"
    while stack:
        stack.pop().__exit__(None, None, None)
    return None


def ob_cache(n: int, o0: int, o1: int, o2: int, o3: int) -> Optional[str]:
    os_ = [o0, o1, o2, o3]
    for i in range(4):
        if i < n:
            if not (0 <= os_[i] < len(OPS)):
                raise Skip()
        elif os_[i] != 0:
            raise Skip()
    ops = [_pick(OPS, os_[i]) for i in range(n)]
    r = concretely(_history, ops)
    if r:
        k, rest = r.split(":", 1)
        return viol(k, lambda: rest.strip())
    return None


def _region_hist_fraction(args, v):
    return v.startswith("history-tuple-fraction")


def _region_logfile_none(args, v):
    return v.startswith("logfile-none")


def _region_held(args, v):
    return v.startswith("held-reference-mutation")


def _region_single_empty(args, v):
    return v.startswith("single-empty-path-entry")


OBLIGATIONS = [
    Obligation("int_bool_core", ob_int_core, pre=["-300 < v < 1100"],
               bounds="integers in (-300, 1100) - CrossHair realises int<->str conversions value by value - and booleans through int, $SHLVL, $XONSH_DEBUG (bool-or-int), bool, bool-or-none, int-or-none converter pairs",
               parts={"quick": [dict(which=i) for i in range(6)]}, timeout={"quick": 120, "thorough": 300},
               symbolic="integer, boolean"),
    Obligation("roundtrip", ob_roundtrip,
               bounds="20 registered variables covering every converter triple with a numeric, boolean, enum, path or list core (and an "
                      "unregistered one, and a *PATH pattern match); values from per-type pools of boundary representatives incl. empty "
                      "path entries in every position; parent Env -> detype() -> nested Env -> detype()",
               pre=["0 <= var_i < 21", "0 <= val_i < 40"], parts={"quick": [dict(var_i=i) for i in range(len(VARS))]},
               timeout={"quick": 120, "thorough": 300},
               regions={"C10-history-size-fraction": _region_hist_fraction, "C10-logfile-none": _region_logfile_none,
                        "C10-single-empty-path-entry": _region_single_empty},
               symbolic="variable index, value index"),
    Obligation("child_env_cache", ob_cache,
               bounds="histories of 1..3 (quick) / 4 (thorough) operations out of 19 (typed and untyped assignments with equal-comparing values, "
                      "list assignment, in-place mutation through a held reference and through a read, delete, swap / mask / overlay enter "
                      "(two overlays naming the same variables, an overlay mask) and exit, a caller editing the mapping it was handed, the first read of a computed default); after every operation the mapping a child would receive is compared with a recomputation from scratch",
               pre=["0 <= o0 < 19", "0 <= o1 < 19", "0 <= o2 < 19", "0 <= o3 < 19"],
               parts={"quick": [dict(n=1), dict(n=2)] + [dict(n=3, o0=i) for i in range(len(OPS))],
                      "thorough": [dict(n=1), dict(n=2)] + [dict(n=3, o0=i) for i in range(len(OPS))]
                                  + [dict(n=4, o0=i, o1=j) for i in range(len(OPS)) for j in range(len(OPS))]},
               timeout={"quick": 240, "thorough": 1500}, regions={"C10-held-reference-mutation": _region_held},
               symbolic="operation indices"),
]
