"""C11 - scoped environment changes are exactly undone and never leak across threads.

Real code executed symbolically: xonsh/environ.py
  Env.swap, _capture_for_swap, _set_item, _del_item, __getitem__, __contains__,
  get, __iter__, rawkeys, detype, detype_all, is_manually_set,
  get_swapped_values/set_swapped_values, InternalEnvironDict (all methods).
Symbolic (finite domain, forced case split): the pre-state of the key in the
global and thread-local layer, and per nesting level what is swapped, what the
overlay holds, what the body does and how the scope is left.
"""

from __future__ import annotations

from typing import List, Optional

import xonsh.environ as E
from xonsh.environ import DELETE_VAR, Env

from vf.api import Obligation, Skip, viol

STUBS = [
    "threading.local layers of InternalEnvironDict/_overlay_local -> per-logical-thread dicts indexed by a harness variable "
    "(threads obligation only; the sequential obligations use the real thread-local storage)",
    "events.on_envvar_new/on_envvar_change.fire -> no-op",
    "Env._vars reduced to UPDATE_OS_ENVIRON, __THREAD_LOCAL__ and the four pool variables (keeps __iter__/detype_all short); "
    "the registered pool variables are created by the real Env.register",
]
ASSUMPTIONS = [
    "$UPDATE_OS_ENVIRON is False (mirroring into os.environ is outside the claim)",
    "values are opaque: only identity/equality of values matters to the code under test",
    "threads: granularity of interleaving is one Env API call; data races inside a call are outside",
]
OUTSIDE = [
    "real preemptive thread interleavings inside an Env method",
    "VarPattern-typed variables and converters (C10)",
    "nesting deeper than the stated bound",
]


class _NoEvents:
    class _E:
        @staticmethod
        def fire(**kw):
            return None

    on_envvar_new = _E()
    on_envvar_change = _E()


E.events = _NoEvents()

KA, KB, KC, KD = "VF_DEF", "VF_FREE", "VF_REG", "VF_NONE"
POOL = [KA, KB, KC, KD]


def _mk_env():
    env = Env({"UPDATE_OS_ENVIRON": False})
    keep = {k: v for k, v in env._vars.items() if k in ("UPDATE_OS_ENVIRON", "__THREAD_LOCAL__")}
    env._vars = keep
    env.register(KA, type="str", default="dfltA")  # registered, default-valued
    env.register(KC, type="str", default="dfltC")  # registered, default-valued, usually set
    env._d._global.clear()
    env._d._local.clear()
    env._detyped = None
    return env


ENV = _mk_env()

GL = [None, "g"]  # global layer: unset / set
LO = [None, "l", DELETE_VAR]  # thread-local layer: absent / value / mask
SW = [None, "s", DELETE_VAR]  # swap: not swapped / value / mask
OV = [None, "o", DELETE_VAR]  # overlay: key absent / value / mask


def _reset(env, pre):
    """`pre` maps key -> (global, local)"""
    env._d._global.clear()
    env._d._global["UPDATE_OS_ENVIRON"] = False
    env._d._local.clear()
    del env._overlay_stack[:]
    for k, (g, l) in pre.items():
        if g is not None:
            env._d._global[k] = g
        if l is not None:
            env._d._local[k] = l
    env._detyped = None


_ABSENT = "<absent>"


def snapshot(env, keys, full=True):
    """Every read path of the property, per key: [] / in / get / iteration / detype() / detype_all().
    full=False leaves out the two whole-environment walks (iteration, detype_all)."""
    out = {}
    it = det_all = None
    if full:
        it = [k for k in env]
        det_all = env.detype_all()
    det = env.detype()
    for k in keys:
        try:
            v = env[k]
        except KeyError:
            v = _ABSENT
        out[k] = (
            v,
            k in env,
            env.get(k, _ABSENT),
            (k in it) if full else None,
            det.get(k, _ABSENT),
            det_all.get(k, _ABSENT) if full else None,
        )
    return out


DEFAULTS = {KA: "dfltA", KC: "dfltC"}


def model_view(k, glob, local, overlays):
    """Reference: what every read path must show for k.
    -> (value or _ABSENT, explicitly_set)"""
    for ov in reversed(overlays):
        if k in ov:
            v = ov[k]
            return (_ABSENT, False) if v is DELETE_VAR else (v, True)
    if k in local:
        v = local[k]
        return (_ABSENT, False) if v is DELETE_VAR else (v, True)
    if k in glob:
        return (glob[k], True)
    if k in DEFAULTS:
        return (DEFAULTS[k], False)
    return (_ABSENT, False)


def expected_snapshot(k, view):
    v, explicit = view
    if v is _ABSENT:
        return (_ABSENT, False, _ABSENT, False, _ABSENT, _ABSENT)
    return (v, True, v, True, v if explicit else _ABSENT, v)


class _Abort(BaseException):
    """a non-Exception exit (KeyboardInterrupt / GeneratorExit class)"""


QUICK_DEPTH2 = False


def _prepare(tier, part):
    global QUICK_DEPTH2
    QUICK_DEPTH2 = tier == "quick"


def _pick(pool, i):
    """finite-domain choice with a forced case split"""
    j = 0
    while j < len(pool) - 1 and i != j:
        j += 1
    return pool[j]


BODY = ["none", "setA", "delA", "setB", "setA_then_read"]
EXIT = ["return", "exception", "base_exception"]


def _level(env, key, other, sw, ov, body, how, inner, log):
    """One scope on `key`: swap value sw, overlay value ov, body op, exit kind."""
    swap_arg = {} if sw is None else {key: sw}
    overlay = None if ov is None else {key: ov}
    # the model of what is visible inside, checked against every read path
    with env.swap(swap_arg, overlay=overlay):
        log.append(("inside", snapshot(env, [key, other], full=not log)))
        if body == "setA":
            env[key] = "x"
        elif body == "delA":
            del env[key]
        elif body == "setB":
            env[other] = "y"
        if inner is not None:
            inner()
        if how == "exception":
            raise ValueError("leave by exception")
        if how == "base_exception":
            raise _Abort()


def ob_scope(kind: int, depth: int, g: int, l: int, gb: int,
             sw1: int, ov1: int, body1: int, how1: int,
             sw2: int, ov2: int, body2: int, how2: int,
             sw3: int, ov3: int, how3: int) -> Optional[str]:
    """Nested scopes on one key (depth 1..3, level 1 outermost) from an arbitrary pre-state."""
    env = ENV
    key = KA if kind == 0 else KB  # registered+default / unregistered
    other = KC if kind == 0 else KD
    rng = lambda v, n: 0 <= v < n  # noqa: E731
    if not (rng(g, 2) and rng(l, 3) and rng(gb, 2) and rng(sw1, 3) and rng(ov1, 3) and rng(body1, 4) and rng(how1, 3)):
        raise Skip()
    if depth >= 2:
        if not (rng(sw2, 3) and rng(ov2, 3) and rng(body2, 4) and rng(how2, 3)):
            raise Skip()
    elif (sw2, ov2, body2, how2) != (0, 0, 0, 0):
        raise Skip()
    if depth >= 3:
        if not (rng(sw3, 3) and rng(ov3, 3) and rng(how3, 3)):
            raise Skip()
    elif (sw3, ov3, how3) != (0, 0, 0):
        raise Skip()
    if QUICK_DEPTH2 and depth == 2 and body2 > 1:
        raise Skip()
    if depth >= 2 and body1 == 2 and body2 in (1, 2):
        # `del` of the scoped variable inside its own scope followed by a new assignment/deletion of it in a
        # nested scope: which layer the second operation should hit is not determined by the property - outside the claim
        raise Skip()
    gv, lv, gbv = _pick(GL, g), _pick(LO, l), _pick(GL, gb)
    pre = {key: (gv, lv), other: (gbv, None)}
    _reset(env, pre)
    before = snapshot(env, [key, other])
    # sanity of the reference on the pre-state
    glob0 = {k: v[0] for k, v in pre.items() if v[0] is not None}
    loc0 = {k: v[1] for k, v in pre.items() if v[1] is not None}
    for k in (key, other):
        if before[k] != expected_snapshot(k, model_view(k, glob0, loc0, [])):
            return viol("read-paths-disagree", lambda: f"pre-state {pre}: {k} reads {before[k]}")
    log: List = []
    b1, b2 = _pick(BODY, body1), _pick(BODY, body2)
    h1, h2, h3 = _pick(EXIT, how1), _pick(EXIT, how2), _pick(EXIT, how3)
    s1, s2, s3 = _pick(SW, sw1), _pick(SW, sw2), _pick(SW, sw3)
    o1, o2, o3 = _pick(OV, ov1), _pick(OV, ov2), _pick(OV, ov3)

    def lvl3():
        _level(env, key, other, s3, o3, "none", h3, None, log)

    def lvl2():
        _level(env, key, other, s2, o2, b2, h2, lvl3 if depth >= 3 else None, log)

    raised = None
    try:
        _level(env, key, other, s1, o1, b1, h1, lvl2 if depth >= 2 else None, log)
    except ValueError:
        raised = "exception"
    except _Abort:
        raised = "base"
    except KeyError:
        raised = "keyerror"  # del of an absent unregistered variable inside the body
    after = snapshot(env, [key, other])
    if raised == "keyerror" and depth == 1:
        # `del env[key]` legitimately raises KeyError only when the variable is stored in neither layer
        # (an overlay value cannot be deleted) and is not a registered variable
        stored = key in glob0 or key in loc0 or s1 is not None
        if not (b1 == "delA" and not stored):
            return viol("exit-raises-keyerror", lambda: f"pre={pre} swap={s1!r} overlay={o1!r} body={b1}: KeyError escaped although the variable existed")
    # ---- inside-scope visibility: first snapshot of each level vs the model ----
    # level 1 inside view
    inside1 = log[0][1]
    ov_stack = [] if o1 is None else [{key: o1}]
    loc1 = dict(loc0)
    if s1 is not None:
        loc1[key] = s1
    view_in = model_view(key, glob0, loc1, ov_stack)
    exp_in = expected_snapshot(key, view_in)
    got_in = inside1[key]
    if view_in[0] is _ABSENT:
        # a masked / absent variable is absent from all views at once
        if got_in != exp_in:
            return viol("mask-inconsistent", lambda: f"pre={pre} swap={s1!r} overlay={o1!r}: inside reads {got_in}, expected absent everywhere")
    else:
        # the scoped value is what [] / in / get / the child mapping show (iteration of overlay-only names is not demanded)
        if (got_in[0], got_in[1], got_in[2], got_in[4]) != (exp_in[0], exp_in[1], exp_in[2], exp_in[4]):
            return viol("inside-view", lambda: f"pre={pre} swap={s1!r} overlay={o1!r}: inside reads {got_in}, expected {exp_in}")
    # ---- restoration ----
    # which body assignments persist: level-1 body 'setA' is undone only if level 1 swapped the key
    exp_glob, exp_loc = dict(glob0), dict(loc0)
    executed_body1 = True
    if b1 == "setB":
        exp_glob[other] = "y"
    if s1 is None:
        if b1 == "setA":
            if key in exp_loc:
                exp_loc[key] = "x"
            else:
                exp_glob[key] = "x"
        elif b1 == "delA":
            if key in exp_loc:
                del exp_loc[key]
            elif key in exp_glob:
                del exp_glob[key]
    # level-2 body: runs only if level-1 body did not raise (delA on an unknown key raises KeyError)
    lvl1_body_raised = (b1 == "delA" and raised == "keyerror" and len(log) == 1)
    if depth >= 2 and not lvl1_body_raised:
        if b2 == "setB":
            exp_glob[other] = "y"
        if s1 is None and s2 is None:
            # nobody scoped the key: the innermost assignment persists
            if b2 == "setA":
                if key in exp_loc:
                    exp_loc[key] = "x"
                else:
                    exp_glob[key] = "x"
            elif b2 == "delA":
                if key in exp_loc:
                    del exp_loc[key]
                elif key in exp_glob:
                    del exp_glob[key]
    for k in (key, other):
        exp = expected_snapshot(k, model_view(k, exp_glob, exp_loc, []))
        if after[k] != exp:
            kind_ = "not-restored" if k == key else "other-var"
            which = ["[]", "in", "get", "iter", "detype", "detype_all"]
            bad = [w for w, a_, e_ in zip(which, after[k], exp) if a_ != e_]
            return viol(f"{kind_}-{'+'.join(bad)}", lambda: (
                f"key={k} pre={pre} L1(swap={s1!r},overlay={o1!r},body={b1},exit={h1}) "
                f"L2(swap={s2!r},overlay={o2!r},body={b2},exit={h2}) L3(swap={s3!r},overlay={o3!r},exit={h3}) depth={depth}: "
                f"after exit reads {after[k]}, expected {exp} (before entry {before[k]})"))
    if env._overlay_stack:
        return viol("overlay-stack", lambda: f"overlay stack not empty after exit: {env._overlay_stack}")
    # ---- exception propagation ----
    exp_raise = None
    # innermost-first: the first level whose exit kind is not 'return' decides (inner scopes run inside the body)
    chain = [(3, h3)] if depth >= 3 else []
    if depth >= 2:
        chain.append((2, h2))
    chain.append((1, h1))
    if raised != "keyerror":
        for _, h in chain:
            if h == "exception":
                exp_raise = "exception"
                break
            if h == "base_exception":
                exp_raise = "base"
                break
        if raised != exp_raise:
            return viol("exception-swallowed", lambda: f"exit kinds {chain}: propagated {raised}, expected {exp_raise}")
    return None


# ----------------------------------------------------------------------------
# the ways a scoped value is handed to swap, and variables that mirror into a partner (sync=)
# ----------------------------------------------------------------------------
SYNC_A, SYNC_B = "XONSH_SUBPROC_CMD_RAISE_ERROR", "RAISE_SUBPROC_ERROR"  # real pair: each is declared sync= of the other


def _mk_env_sync():
    import warnings

    warnings.simplefilter("ignore", DeprecationWarning)
    env = Env({"UPDATE_OS_ENVIRON": False})
    env._vars = {k: v for k, v in env._vars.items() if k in ("UPDATE_OS_ENVIRON", "__THREAD_LOCAL__", SYNC_A, SYNC_B)}
    env._d._global.clear()
    env._d._local.clear()
    env._detyped = None
    return env


ENV_S = _mk_env_sync()
FORMS = ["dict", "kwargs", "dict_and_kwargs_same_key", "dict_and_kwargs_other_key"]


def ob_forms(var: int, form: int, g: int, l: int, v1: bool, v2: bool, how: int, body: int) -> Optional[str]:
    """One scope, every calling form of swap (positional mapping, keyword, both) on an unregistered variable and
    on each member of a real sync= pair: every read path of the variable *and of its partner* is as before on exit."""
    if not (0 <= var < 3 and 0 <= form < 4 and 0 <= g < 3 and 0 <= l < 2 and 0 <= how < 2 and 0 <= body < 2):
        raise Skip()
    env = ENV_S
    if var == 0:
        key, partner = KB, KD
        a, b = ("s1" if v1 else "s2"), ("t1" if v2 else "t2")
        gval = [None, "g", "h"][_pick([0, 1, 2], g)]
        lval = [None, "l"][_pick([0, 1], l)]
        pre = {key: (gval, lval), partner: (gval, None)}
    else:
        key, partner = (SYNC_A, SYNC_B) if var == 1 else (SYNC_B, SYNC_A)
        a, b = v1, v2
        gval = [None, False, True][_pick([0, 1, 2], g)]
        lval = [None, True][_pick([0, 1], l)]
        # a consistent pre-state: the pair holds the same value in each layer (that is what sync= maintains)
        pre = {key: (gval, lval), partner: (gval, lval)}
    _reset(env, pre)
    before = snapshot(env, [key, partner])
    fm = _pick(FORMS, form)
    if fm == "dict":
        cm = env.swap({key: a})
    elif fm == "kwargs":
        cm = env.swap(**{key: a})
    elif fm == "dict_and_kwargs_same_key":
        cm = env.swap({key: a}, **{key: b})
    else:
        cm = env.swap({key: a}, VF_THIRD="z")
    raised = False
    inside = None
    try:
        with cm:
            inside = env[key]
            if body == 1:
                env["VF_OTHER"] = "kept"  # an assignment to an unrelated variable persists
            if how == 1:
                raise ValueError("leave by exception")
    except ValueError:
        raised = True
    if raised != (how == 1):
        return viol("exception-swallowed", lambda: f"form={fm} how={how}: raised={raised}")
    if fm != "dict_and_kwargs_same_key" and inside != a:
        return viol("inside-view", lambda: f"form={fm} key={key}: inside reads {inside!r}, swapped to {a!r}")
    after = snapshot(env, [key, partner])
    for k in (key, partner):
        if after[k] != before[k]:
            which = ["[]", "in", "get", "iter", "detype", "detype_all"]
            bad = [w for w, a_, e_ in zip(which, after[k], before[k]) if a_ != e_]
            tag = "not-restored" if k == key else "partner-not-restored"
            return viol(f"{tag}-{'+'.join(bad)}", lambda: (
                f"swap form {fm} of {key}={a!r}{'/' + repr(b) if fm == 'dict_and_kwargs_same_key' else ''} from pre-state {pre}, "
                f"exit by {'exception' if how else 'return'}: {k} reads {after[k]} after exit, {before[k]} before entry; "
                f"thread-local layer now {dict(env._d._local)}"))
    if "VF_THIRD" in env:
        return viol("not-restored-third", lambda: "keyword-swapped VF_THIRD outlived the scope")
    if body == 1 and env.get("VF_OTHER") != "kept":
        return viol("body-assignment-lost", lambda: "assignment to another variable inside the scope did not persist")
    return None


# ----------------------------------------------------------------------------
# logical threads: a symbolic schedule of Env API calls over two thread-local layers
# ----------------------------------------------------------------------------
class _Layers:
    cur = 0
    local = [{}, {}]
    stacks = [[], []]


def _install_thread_model(env):
    class D(E.InternalEnvironDict):
        @property
        def _local(self):
            return _Layers.local[_Layers.cur]

    class EnvT(Env):
        @property
        def _overlay_stack(self):
            return _Layers.stacks[_Layers.cur]

    d = D()
    d._global = env._d._global
    env._d = d
    env.__class__ = EnvT
    return env


ENV_T = _install_thread_model(_mk_env())


def _t0_script(env, key, other, sw, ov, body, how):
    """generator: one scope of thread 0, yielding between Env API calls"""
    yield
    try:
        swap_arg = {} if sw is None else {key: sw}
        overlay = None if ov is None else {key: ov}
        with env.swap(swap_arg, overlay=overlay):
            yield
            env.detype()  # e.g. a child is spawned inside the scope: fills the shared detype cache
            yield
            if body == "setA":
                env[key] = "x"
            elif body == "setB":
                env[other] = "y"
            yield
            if how == "exception":
                raise ValueError()
            if how == "base_exception":
                raise _Abort()
    except (ValueError, _Abort):
        pass
    yield


def ob_threads(kind: int, g: int, sw0: int, ov0: int, body0: int, how0: int, spawn_at: int,
               r1: int, r2: int, r3: int = 5) -> Optional[str]:
    """Thread 0 runs one scope; thread 1 reads the variable (all read paths incl. the mapping children receive)
    at three arbitrary points r1 <= r2 <= r3 of thread 0's progress.  spawn_at = -1: thread 1 is an independent
    thread (must always see the un-swapped view); spawn_at = k >= 0: thread 1 is started by thread 0 after its
    k-th step and inherits its swapped view through get_swapped_values/set_swapped_values (must see that view,
    frozen, whatever thread 0 does later)."""
    env = ENV_T
    NSTEP = 5
    if not (0 <= kind < 2 and 0 <= g < 2 and 0 <= sw0 < 3 and 0 <= ov0 < 3 and 0 <= body0 < 4 and 0 <= how0 < 3
            and -1 <= spawn_at <= NSTEP and 0 <= r1 <= r2 <= r3 <= NSTEP):
        raise Skip()
    if spawn_at > r1:
        raise Skip()  # thread 1 cannot read before it exists
    key = KA if kind == 0 else KB
    other = KC if kind == 0 else KD
    gv = _pick(GL, g)
    _Layers.cur = 0
    _Layers.local = [{}, {}]
    _Layers.stacks = [[], []]
    env._d._global.clear()
    env._d._global["UPDATE_OS_ENVIRON"] = False
    if gv is not None:
        env._d._global[key] = gv
    env._detyped = None
    s0, o0 = _pick(SW, sw0), _pick(OV, ov0)
    b0 = _pick(BODY, body0)
    if b0 == "delA":
        raise Skip()
    h0 = _pick(EXIT, how0)
    t0 = _t0_script(env, key, other, s0, o0, b0, h0)
    reads = []
    inherited = None
    step = 0
    done = False
    glob_at = []  # model of the shared global layer when each read happens
    glob = {} if gv is None else {key: gv}
    while True:
        if spawn_at == step and inherited is None:
            _Layers.cur = 0
            sv = env.get_swapped_values()
            _Layers.cur = 1
            env.set_swapped_values(sv)
            inherited = dict(sv)
        for r in (r1, r2, r3):
            if r == step:
                _Layers.cur = 1
                reads.append((step, snapshot(env, [key])[key]))
                glob_at.append(dict(glob))
        if done or step >= NSTEP:
            break
        _Layers.cur = 0
        try:
            next(t0)
        except StopIteration:
            done = True
        step += 1
        # model: an assignment inside a scope that does not swap the key is an ordinary (global) assignment
        if step == 4 and b0 == "setA" and s0 is None:
            glob[key] = "x"
    loc1 = dict(inherited or {})
    for (st, got), gl in zip(reads, glob_at):
        exp = expected_snapshot(key, model_view(key, gl, loc1, []))
        if got != exp:
            which = ["[]", "in", "get", "iter", "detype", "detype_all"]
            bad = [w for w, a_, e_ in zip(which, got, exp) if a_ != e_]
            return viol("thread-leak-" + "+".join(bad), lambda: (
                f"key={key} global={gv!r} thread0(swap={s0!r},overlay={o0!r},body={b0},exit={h0}) spawn_at={spawn_at} "
                f"inherited={inherited}: thread 1 after {st} steps of thread 0 read {got}, expected {exp}"))
    # thread 0 itself is restored
    _Layers.cur = 0
    while not done:
        try:
            next(t0)
        except StopIteration:
            done = True
    after0 = snapshot(env, [key])[key]
    glob_end = dict(glob)
    if b0 == "setA" and s0 is None:
        glob_end[key] = "x"
    exp0 = expected_snapshot(key, model_view(key, glob_end, {}, []))
    if after0 != exp0:
        return viol("thread0-not-restored", lambda: f"thread 0 after its scope reads {after0}, expected {exp0}")
    return None


def _parts_scope(depth, quick):
    parts = []
    for kind in (0, 1):
        for g in range(2):
            for l in range(3):
                if depth == 1:
                    parts.append(dict(kind=kind, depth=1, g=g, l=l))
                elif depth == 2:
                    if quick:
                        # quick: outer level without body op and left by return, second key unset, pre-state without a
                        # local entry, inner body op in {none, setA}
                        if l == 0:
                            for sw1 in range(3):
                                parts.append(dict(kind=kind, depth=2, g=g, l=l, sw1=sw1, body1=0, gb=0, how1=0))
                    else:
                        for sw1 in range(3):
                            for ov1 in range(3):
                                parts.append(dict(kind=kind, depth=2, g=g, l=l, sw1=sw1, ov1=ov1, gb=0))
                else:
                    if l == 0:
                        for sw1 in range(3):
                            for ov1 in range(3):
                                for sw2 in range(3):
                                    parts.append(dict(kind=kind, depth=3, g=g, l=l, sw1=sw1, ov1=ov1, sw2=sw2,
                                                      body1=0, body2=0, gb=0))
    return parts


def _region_default_leak(args, v):
    return v.startswith("not-restored") and args.get("kind") == 0 and args.get("g") == 0 and args.get("l") == 0


OBLIGATIONS = [
    Obligation(
        "scope_depth1", ob_scope,
        bounds="one scope on one key from every pre-state (global unset/set x local absent/value/mask) x key kind "
               "(registered with default / unregistered) x swap {none,value,mask} x overlay {none,value,mask} x 4 body ops x 3 exit kinds",
        parts={"quick": _parts_scope(1, True)}, timeout={"quick": 120, "thorough": 600},
        symbolic="finite-domain choices per level (forced case split); second key's global state",
    ),
    Obligation(
        "scope_depth2", ob_scope,
        bounds="two nested scopes on the same key; quick: outer level without body op, pre-state without thread-local entry; "
               "thorough: every combination as in depth 1 at both levels",
        parts={"quick": _parts_scope(2, True), "thorough": _parts_scope(2, False)}, timeout={"quick": 240, "thorough": 1500},
        prepare=_prepare,
        symbolic="finite-domain choices per level",
    ),
    Obligation(
        "scope_depth3", ob_scope, tiers=("thorough",),
        bounds="three nested scopes on the same unregistered key (body ops only at no level, pre-state without thread-local entry)",
        parts={"thorough": [p for p in _parts_scope(3, False) if p["kind"] == 1]}, timeout={"thorough": 900},  # unregistered key only (the whole tier must fit ~45 min)
        symbolic="finite-domain choices per level",
    ),
    Obligation(
        "swap_forms", ob_forms,
        bounds="one scope; the scoped value passed as positional mapping / keyword / both for the same key / both for different keys; "
               "variable = unregistered, or either member of the real sync= pair $XONSH_SUBPROC_CMD_RAISE_ERROR <-> $RAISE_SUBPROC_ERROR "
               "(the partner's read paths are compared too); pre-state global {unset, 2 values} x thread-local {absent, value}; exit by return / exception",
        parts={"quick": [dict(var=v, form=f) for v in range(3) for f in range(4)]},
        timeout={"quick": 120, "thorough": 600},
        symbolic="pre-state, swapped values, exit kind, body op",
    ),
    Obligation(
        "threads", ob_threads,
        bounds="thread 0: one scope (every swap/overlay/body/exit choice, detype() inside); thread 1: reads of every read "
               "path at arbitrary points r1<=r2(<=r3) of thread 0's progress, as an independent thread or inheriting at a spawn point "
               "(quick: registered set variable, spawn in {none, after step 1, after step 2}, last read after thread 0 ends; "
               "thorough: both variable kinds, set/unset, spawn in {none, after step 1, 2, 4}, three free reads)",
        pre=["0 <= r1 <= r2 <= r3 <= 5", "0 <= how0 < 3", "0 <= body0 < 4", "0 <= ov0 < 3"],
        parts={"quick": [dict(kind=0, g=1, sw0=a, spawn_at=sp, r3=5) for a in range(3) for sp in (-1, 1, 2)],
               "thorough": [dict(kind=k, g=g, sw0=a, spawn_at=sp) for k in (0, 1) for g in (0, 1) for a in range(3)
                            for sp in (-1, 1, 2, 4)]},
        timeout={"quick": 240, "thorough": 1500},
        symbolic="read positions r1<=r2<=r3, spawn point, thread 0's overlay/body/exit choices",
    ),
]
