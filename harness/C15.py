"""C15 - alias expansion always terminates and preserves the user's arguments.

Real code executed symbolically: xonsh/aliases.py Aliases.get, Aliases.eval_alias,
_normalize_return_command_result; xonsh/procs/specs.py SubprocSpec.build ->
resolve_decorators, resolve_alias, resolve_binary_loc ($__ALIAS_STACK guard), add_decorator.
Symbolic (finite domain, forced case split): the alias graph - per alias its kind and
the name its expansion starts with - plus the invoked name; opaque marker tokens flow
through.
"""

from __future__ import annotations

import sys
from typing import List, Optional

from vf.api import Obligation, Skip, concretely, viol
from vf.session import load_session

XSH = load_session()

import xonsh.aliases as A  # noqa: E402
import xonsh.procs.specs as S  # noqa: E402
from xonsh.procs.specs import DecoratorAlias, SpecAttrDecoratorAlias  # noqa: E402

STUBS = [
    "XSH.expand_path -> identity (tokens contain no $ or ~); locate_executable -> None (no PATH search)",
    "alias table installed directly as Aliases._raw (string-alias classification through EXEC_ALIAS_RE/lexer is outside)",
    "return_command aliases are functions returning [head, own marker] + the arguments they were given; callable aliases are opaque functions",
]
ASSUMPTIONS = [
    "trailing alias arguments and user arguments are opaque distinct markers (the code only moves them)",
    "the alias graph is any assignment of kinds {absent, list, list-with-leading-decorators, callable, return_command} and head names "
    "over the fixed names a0..a3 plus a non-alias name x: self loops, 2- and 3-cycles, chains and diamonds all arise",
]
OUTSIDE = ["string aliases and ExecAlias bodies", "more than 4 aliases / more than 2 own arguments per alias"]

NAMES = ["a0", "a1", "a2", "a3"]
HEADS = NAMES + ["x"]
KINDS = ["absent", "list", "deco_list", "callable", "retcmd"]
D1 = SpecAttrDecoratorAlias({"vf_flag": 1, "threadable": True}, "d1", name="@d1")
D2 = SpecAttrDecoratorAlias({"vf_flag": 2, "threadable": False}, "d2", name="@d2")


def _pick(pool, i):
    j = 0
    while j < len(pool) - 1 and i != j:
        j += 1
    return pool[j]


def _mk_callable(i):
    def fn(args, stdin=None):
        return 0

    fn.__name__ = f"call_a{i}"
    return fn


CALLS = [_mk_callable(i) for i in range(4)]
RET_LOG: List = []


def _mk_retcmd(i, head):
    def fn(args, decorators=None, env=None):
        RET_LOG.append(i)
        if len(RET_LOG) > 40:
            raise RecursionError("return_command alias re-invoked without bound")
        return [head, f"r{i}"] + list(args)

    fn.return_what = "command"
    fn.__name__ = f"ret_a{i}"
    return fn


def build_table(n, kinds, heads, tails, order_rev):
    """-> (raw dict in the chosen insertion order, description)"""
    items = []
    desc = {}
    for i in range(n):
        k = kinds[i]
        name = NAMES[i]
        if k == "absent":
            continue
        tail = [f"t{i}{j}" for j in range(tails[i])]
        if k == "list":
            val = [heads[i]] + tail
        elif k == "deco_list":
            val = ["@d1", "@d2", heads[i]] + tail if i % 2 == 0 else ["@d2", heads[i]] + tail
        elif k == "callable":
            val = CALLS[i]
        else:
            val = _mk_retcmd(i, heads[i])
        items.append((name, val))
        desc[name] = (k, heads[i], tail)
    items += [("@d1", D1), ("@d2", D2)]
    if order_rev:
        items.reverse()
    return dict(items), desc


def reference(desc, key, args):
    """Iterative expander written from the property text.
    -> (result list or None, decorators in order)"""
    if key not in desc:
        return None, []
    seen = {key}
    decs: List = []
    acc = list(args)
    cur = key
    steps = 0
    while True:
        steps += 1
        k, head, tail = desc[cur]
        i = NAMES.index(cur)
        if k == "callable":
            return [CALLS[i]] + acc, decs
        if k == "retcmd":
            value = [head, f"r{i}"] + acc
            acc = []
            # a returned command of length > 1 has its leading decorator tokens stripped like any list (none here)
            token, rest = value[0], value[1:]
        else:
            if k == "deco_list":
                decs.extend([D1, D2] if i % 2 == 0 else [D2])
            token, rest = head, list(tail)
        if token in seen or token not in desc:
            return [token] + rest + acc, decs
        seen.add(token)
        acc = rest + acc
        cur = token


def _table_args(n, k0, k1, k2, k3, h0, h1, h2, h3, t0, t1, t2, t3):
    ks, hs, ts = [k0, k1, k2, k3], [h0, h1, h2, h3], [t0, t1, t2, t3]
    for i in range(4):
        if i < n:
            if not (0 <= ks[i] < len(KINDS) and 0 <= hs[i] < len(HEADS) and 0 <= ts[i] <= 2):
                raise Skip()
        elif (ks[i], hs[i], ts[i]) != (0, 0, 0):
            raise Skip()
    kinds = [_pick(KINDS, ks[i]) if i < n else "absent" for i in range(4)]
    heads = [_pick(HEADS, hs[i]) if i < n else "x" for i in range(4)]
    tails = [_pick([0, 1, 2], ts[i]) if i < n else 0 for i in range(4)]
    for i in range(n):
        # canonical: kinds that have no head/tail use the first value only
        if kinds[i] in ("absent", "callable") and hs[i] != 0:
            raise Skip()
        if kinds[i] in ("absent", "callable", "retcmd") and ts[i] > 1:
            raise Skip()  # no own arguments for these kinds: the count is ignored (0 and 1 both accepted so partitions may pin 1)
    return kinds, heads, tails


def _ident(s, *a, **k):
    return s


def ob_get(n: int, k0: int, k1: int, k2: int, k3: int, h0: int, h1: int, h2: int, h3: int,
           t0: int, t1: int, t2: int, t3: int, key_i: int, nargs: int) -> Optional[str]:
    """Aliases.get([key] + args) on an arbitrary alias graph, in both definition orders."""
    if not (0 <= key_i < len(HEADS) and 0 <= nargs <= 2):
        raise Skip()
    kinds, heads, tails = _table_args(n, k0, k1, k2, k3, h0, h1, h2, h3, t0, t1, t2, t3)
    key = _pick(HEADS, key_i)
    args = ["u0", "u1"][: _pick([0, 1, 2], nargs)]
    XSH.expand_path = _ident
    results = []
    for rev in (False, True):
        raw, desc = build_table(n, kinds, heads, tails, rev)
        al = A.Aliases()
        al._raw = raw
        decs: List = []
        del RET_LOG[:]
        old_limit = sys.getrecursionlimit()
        try:
            sys.setrecursionlimit(max(old_limit, 400))
            got = al.get([key] + args, None, decorators=decs)
        except RecursionError:
            return viol("non-termination", lambda: f"table {desc} invoked as {[key] + args}: expansion does not terminate (RecursionError)")
        finally:
            sys.setrecursionlimit(old_limit)
        results.append((None if got is None else list(got), list(decs)))
        if not rev:
            # resolution is a read of the table: asking again gives the same answer
            decs2: List = []
            del RET_LOG[:]
            try:
                got2 = al.get([key] + args, None, decorators=decs2)
            except RecursionError:
                got2 = "<RecursionError>"
            again = (None if got2 is None else (got2 if isinstance(got2, str) else list(got2)), list(decs2))
            if again != results[0]:
                return viol("second-resolution-differs", lambda: f"table {desc} invoked as {[key] + args}: first resolution {results[0]}, the same call again {again} (the stored table was modified by resolving)")
    exp, exp_decs = reference(desc, key, args)
    got, decs = results[0]
    if results[0] != results[1]:
        return viol("definition-order", lambda: f"table {desc} invoked as {[key] + args}: {results[0]} vs {results[1]} when defined in reverse order")
    if got != exp:
        k = "args-order" if got is not None and exp is not None and sorted(map(str, got)) == sorted(map(str, exp)) else "expansion"
        return viol(k, lambda: f"table {desc} invoked as {[key] + args}: got {got}, expected {exp}")
    if decs != exp_decs:
        return viol("decorators", lambda: f"table {desc} invoked as {[key] + args}: decorators {decs}, expected {exp_decs}")
    return None


def ob_spec(n: int, k0: int, k1: int, k2: int, k3: int, h0: int, h1: int, h2: int, h3: int,
            t0: int, t1: int, t2: int, t3: int, key_i: int, lead: int, in_stack: bool) -> Optional[str]:
    """SubprocSpec.build on [decorators..., key, u0]: spec.cmd / spec.alias / spec.decorators."""
    if not (0 <= key_i < len(HEADS) and 0 <= lead < 3):
        raise Skip()
    kinds, heads, tails = _table_args(n, k0, k1, k2, k3, h0, h1, h2, h3, t0, t1, t2, t3)
    key = _pick(HEADS, key_i)
    lead_toks = _pick([[], ["@d1"], ["@d2", "@d1"]], lead)
    XSH.expand_path = _ident
    raw, desc = build_table(n, kinds, heads, tails, False)
    al = A.Aliases()
    al._raw = raw
    saved = (XSH.aliases if hasattr(XSH, "aliases") else None, S.locate_executable)
    XSH.commands_cache.aliases = al
    S.locate_executable = lambda name, *a, **k: None
    env = XSH.env
    env["__ALIAS_STACK"] = key if in_stack else ""
    del RET_LOG[:]
    try:
        try:
            spec = S.SubprocSpec.build(lead_toks + [key, "u0"])
        except RecursionError:
            return viol("non-termination", lambda: f"table {desc}: building a spec for {key} does not terminate")
        except Exception as e:  # noqa: BLE001
            if in_stack and "Recursive calls" in str(e):
                # re-entering a running callable alias by name with no binary of that name: documented error
                return None
            return viol("spec-exception", lambda: f"table {desc} cmd {lead_toks + [key, 'u0']}: {type(e).__name__}: {e}")
    finally:
        XSH.commands_cache.aliases = saved[0]
        S.locate_executable = saved[1]
        env["__ALIAS_STACK"] = ""
    lead_decs = [{"@d1": D1, "@d2": D2}[t] for t in lead_toks]
    if in_stack:
        # the alias currently executing is not expanded again
        if spec.alias is not None or spec.cmd != [key, "u0"]:
            return viol("alias-stack", lambda: f"{key} is executing ($__ALIAS_STACK) but was expanded again: alias={spec.alias} cmd={spec.cmd}")
        return None
    exp, exp_decs = reference(desc, key, ["u0"])
    want_decs = lead_decs + exp_decs
    if list(spec.decorators) != want_decs:
        return viol("decorators", lambda: f"table {desc} cmd {lead_toks + [key, 'u0']}: decorators {[d.name for d in spec.decorators]}, expected {[d.name for d in want_decs]}")
    if want_decs and getattr(spec, "vf_flag", None) != want_decs[-1].set_attributes["vf_flag"]:
        return viol("decorator-effect", lambda: f"last decorator must win: vf_flag={getattr(spec, 'vf_flag', None)} after {[d.name for d in want_decs]}")
    if exp is None:
        if spec.alias is not None or spec.cmd != [key, "u0"]:
            return viol("expansion", lambda: f"{key} is no alias but spec.alias={spec.alias} cmd={spec.cmd}")
        return None
    if callable(exp[0]):
        # for a callable alias the spec keeps the arguments only (the name is in alias_name)
        if spec.alias is not exp[0] or spec.cmd != exp[1:] or spec.alias_name != key:
            return viol("expansion", lambda: f"table {desc}: spec.alias={spec.alias} cmd={spec.cmd}, expected callable {exp[0].__name__} with {exp[1:]}")
    elif list(spec.alias) != exp:
        return viol("expansion", lambda: f"table {desc}: spec.alias={spec.alias}, expected {exp}")
    return None


# ----------------------------------------------------------------------------
# string aliases as the user defines them (Aliases.__setitem__): plain word lists keep the user's arguments
# ----------------------------------------------------------------------------
# (body, is a plain command with arguments)  - plain bodies hold "and"/"or" only inside words
STRING_BODIES = [
    ("ls -l", True), ("echo --stop-and-wait", True), ("echo this-or-that", True), ("echo a.or.b", True), ("grep x=and y", True),
    ("echo and/or", True), ("echo sand orb", True), ("echo -and", True), ("echo or-", True), ("make --and=1 --or", True),
    ("echo a and echo b", False), ("echo a or echo b", False), ("echo a && echo b", False), ("ls | wc", False), ("echo hi > f", False),
    ("echo $(date)", False),
]


def _string_alias(i, nargs):
    body, plain = STRING_BODIES[i]
    al = A.Aliases()
    al["vfs"] = body
    args = ["u0", "u1"][:nargs]
    decs: List = []
    got = al.get(["vfs"] + args, None, decorators=decs)
    if plain:
        want = body.split() + args
        if got is None or [str(x) for x in got] != want or any(callable(x) for x in got):
            shown = [x if isinstance(x, str) else type(x).__name__ for x in (got or [])]
            return (f"string-alias-arguments: aliases['vfs'] = {body!r}; `vfs {' '.join(args)}` resolves to {shown}, expected {want} "
                    f"(a plain command with arguments: the user's arguments follow the alias's own)")
    else:
        if got is None or not callable(got[0]):
            return f"string-alias-kind: aliases['vfs'] = {body!r} holds shell operators but resolves to the plain list {got}"
    return None


def ob_string_alias(i: int, nargs: int) -> Optional[str]:
    if not (0 <= i < len(STRING_BODIES) and 0 <= nargs <= 2):
        raise Skip()
    r = concretely(_string_alias, _pick(list(range(len(STRING_BODIES))), i), _pick([0, 1, 2], nargs))
    if r:
        k, rest = r.split(":", 1)
        return viol(k, lambda: rest.strip())
    return None


def _kind_parts(n, extra=({},), kinds=None):
    import itertools

    out = []
    for ks in itertools.product(kinds or range(1, len(KINDS)), repeat=n):
        kw = {f"k{i}": ks[i] for i in range(n)}
        for e in extra:
            out.append(dict(n=n, **kw, **e))
    return out


_PRE = ["0 <= h0 < 5", "0 <= h1 < 5", "0 <= h2 < 5", "0 <= h3 < 5", "0 <= t0 <= 2", "0 <= t1 <= 2", "0 <= t2 <= 2", "0 <= t3 <= 2",
        "0 <= k0 < 5", "0 <= k1 < 5", "0 <= k2 < 5", "0 <= k3 < 5", "0 <= key_i < 5"]
# quick: own-argument count 1 for every list alias and one user argument (they are opaque: only their order matters)
_T1 = dict(nargs=1)
_CHAIN = (1, 2, 4)  # list, list-with-decorators, return_command: the kinds through which expansion continues
OBLIGATIONS = [
    Obligation("alias_get", ob_get,
               bounds="quick: every table of 2 aliases (all kinds; own-argument counts 0..2 and 0..2 user arguments for two kind pairs) and every table of 3 "
                      "aliases of the continuing kinds (list, decorated list, return_command) invoked as a0 with one user argument; thorough: 3 aliases "
                      "of all kinds and 4 aliases of the continuing kinds; every head assignment over {a0..a3, x}; invoked name any "
                      "of them; both definition orders",
               pre=_PRE + ["0 <= nargs <= 2"],
               parts={"quick": _kind_parts(2, [dict(t0=1, t1=1, nargs=1)]) + [dict(n=2, k0=1, k1=1, key_i=0), dict(n=2, k0=2, k1=4, key_i=0)]
                               + _kind_parts(3, [dict(t0=1, t1=1, t2=1, nargs=1, key_i=0)], _CHAIN),
                      "thorough": _kind_parts(2) + _kind_parts(3, [dict(t0=1, t1=1, t2=1, nargs=1)])
                                  + _kind_parts(4, [dict(t0=1, t1=1, t2=1, t3=1, nargs=1, key_i=0)], _CHAIN)},
               timeout={"quick": 240, "thorough": 1800},
               symbolic="head-name index per alias, own-argument count per alias, invoked name, number of user arguments"),
    Obligation("spec_build", ob_spec,
               bounds="SubprocSpec.build on tables of 2 aliases (all kinds; quick: own-argument count 1) and of 3 aliases of kinds "
                      "{decorated list, return_command} (thorough: all continuing kinds), 0..2 leading decorator tokens on the command "
                      "line, with and without the invoked name in $__ALIAS_STACK",
               pre=_PRE + ["0 <= lead < 3"],
               parts={"quick": _kind_parts(2, [dict(in_stack=False, t0=1, t1=1), dict(in_stack=True, t0=1, t1=1, lead=0, key_i=0)])
                               + _kind_parts(3, [dict(t0=1, t1=1, t2=1, in_stack=False, lead=1, key_i=0)], (2, 4)),
                      "thorough": _kind_parts(2, [dict(in_stack=False), dict(in_stack=True, lead=0)])
                                  + _kind_parts(3, [dict(t0=1, t1=1, t2=1, in_stack=False, lead=1)], _CHAIN)},
               timeout={"quick": 240, "thorough": 1800},
               symbolic="as alias_get plus leading decorators"),
    Obligation("string_alias", ob_string_alias,
               bounds=f"{len(STRING_BODIES)} alias strings defined through Aliases.__setitem__ (plain commands whose words contain and/or next to punctuation, "
                      "and bodies with real shell operators), invoked with 0..2 user arguments",
               pre=["0 <= i < 40", "0 <= nargs <= 2"], timeout={"quick": 120, "thorough": 120}, symbolic="body index, number of arguments"),
]
