"""C14 - history GC only ever discards the oldest, unlocked history.

Real code executed symbolically: xonsh/history/json.py
  _xhj_gc_{commands,files,seconds,bytes}_to_rmfiles, JsonHistoryGC.run,
  JsonHistoryGC.files.
Symbolic: per file (ts, ncmds, size, locked, ts0), limit value, unit, force, boot
time, clock.  Integers are unbounded (only the stated non-negativity is assumed).
"""

from __future__ import annotations

import builtins
from typing import List, Optional, Tuple

import xonsh.history.json as hj
from xonsh.built_ins import XSH

from vf.api import Obligation, Skip, gappy

STUBS = [
    "time.time (module xonsh.history.json) -> symbolic integer clock",
    "os.remove -> recorder",
    "JsonHistoryGC.start -> no-op (run() is called synchronously on the calling thread)",
    "xonsh.lib.lazyjson.LazyJSON -> dict-like view of the symbolic per-file record (files() obligations)",
    "os.path.getsize/getmtime, _xhj_get_history_files, uptime.boottime -> symbolic values",
    "f-string rendering of symbolic numbers (warning/debug messages) -> constant placeholder",
    "tempfile.mkstemp / os.fdopen / os.replace as seen from xonsh.history.json -> recorder of atomically replaced files (files() obligations)",
    "builtins.open as seen from xonsh.history.json -> recorder of rewritten files (files() obligations)",
]
ASSUMPTIONS = [
    "history files handed to the selectors are sorted oldest first (JsonHistoryGC.files sorts them; checked by the files() obligation)",
    "command counts, byte sizes and limits are non-negative integers; timestamps are integers (seconds)",
    "a file's 'locked' flag with ts[0] >= boot time marks a live session",
]
OUTSIDE = [
    "SQLite backend (_xh_sqlite_delete_records runs inside the SQL engine)",
    "float-valued timestamps (CrossHair reals are not IEEE doubles)",
    "collections of more files than the stated bound",
]

OPAQUE_NUMBER_FORMAT = True
_NAMES = [f"f{i}" for i in range(8)]


def _mk_files(recs):
    """(ts, ncmds, size) records -> the tuples xonsh passes around, sorted oldest first."""
    files = []
    last = None
    for i, (ts, nc, sz) in enumerate(recs):
        if nc < 0 or sz < 0 or ts < 0:
            raise Skip()
        if last is not None and ts < last:
            raise Skip()
        last = ts
        files.append((ts, nc, f"f{i}", sz))
    return files


def _is_prefix(rm, files):
    return len(rm) <= len(files) and list(files[: len(rm)]) == list(rm)


# ----------------------------------------------------------------------------
# selectors
# ----------------------------------------------------------------------------
def ob_commands(nmax: int, hsize: int, recs: List[Tuple[int, int, int]]) -> Optional[str]:
    if len(recs) > nmax or hsize < 0:
        raise Skip()
    files = _mk_files(recs)
    removed_units, rm = hj._xhj_gc_commands_to_rmfiles(hsize, list(files))
    if not _is_prefix(rm, files):
        return f"not-oldest-first: removed {rm} is not a prefix of {files}"
    kept = files[len(rm):]
    ksum = sum(f[1] for f in kept)
    if ksum > hsize:
        return f"over-limit: kept {ksum} commands > limit {hsize}"
    if rm and ksum + rm[-1][1] <= hsize:
        return f"not-maximal: could also keep {rm[-1]} (kept {ksum}, limit {hsize})"
    if removed_units != sum(f[1] for f in rm):
        return f"units: reported {removed_units} != removed commands"
    return None


def ob_bytes(nmax: int, hsize: int, recs: List[Tuple[int, int, int]]) -> Optional[str]:
    if len(recs) > nmax or hsize < 0:
        raise Skip()
    files = _mk_files(recs)
    removed_units, rm = hj._xhj_gc_bytes_to_rmfiles(hsize, list(files))
    if not _is_prefix(rm, files):
        return f"not-oldest-first: removed {rm} is not a prefix of {files}"
    kept = files[len(rm):]
    ksum = sum(f[3] for f in kept)
    if ksum > hsize:
        return f"over-limit: kept {ksum} bytes > limit {hsize}"
    if rm and ksum + rm[-1][3] <= hsize:
        return f"not-maximal: could also keep {rm[-1]} (kept {ksum}, limit {hsize})"
    if removed_units != sum(f[3] for f in rm):
        return f"units: reported {removed_units} != removed bytes"
    return None


def ob_files(nmax: int, hsize: int, recs: List[Tuple[int, int, int]]) -> Optional[str]:
    if len(recs) > nmax or hsize < 0:
        raise Skip()
    files = _mk_files(recs)
    removed_units, rm = hj._xhj_gc_files_to_rmfiles(hsize, list(files))
    if not _is_prefix(rm, files):
        return f"not-oldest-first: removed {rm} is not a prefix of {files}"
    kept = len(files) - len(rm)
    if kept > hsize:
        return f"over-limit: kept {kept} files > limit {hsize}"
    if rm and kept + 1 <= hsize:
        return f"not-maximal: removed {len(rm)} files but only {kept} kept with limit {hsize}"
    if removed_units != len(rm):
        return f"units: reported {removed_units} != {len(rm)}"
    return None


class _Clock:
    def __init__(self, now):
        self.now = now

    def time(self):
        return self.now

    def sleep(self, _):
        pass


def ob_seconds(nmax: int, hsize: int, now: int, recs: List[Tuple[int, int, int]]) -> Optional[str]:
    if len(recs) > nmax or hsize < 0 or now < 0:
        raise Skip()
    files = _mk_files(recs)
    if files and files[-1][0] > now:
        raise Skip()
    saved = hj.time
    hj.time = _Clock(now)
    try:
        size_over, rm = hj._xhj_gc_seconds_to_rmfiles(hsize, list(files))
    finally:
        hj.time = saved
    if not _is_prefix(rm, files):
        return f"not-oldest-first: removed {rm} is not a prefix of {files}"
    kept = files[len(rm):]
    for f in kept:
        if now - f[0] >= hsize and (kept and now - kept[0][0] >= hsize):
            return f"over-limit: kept file of age {now - f[0]} >= limit {hsize}"
    for f in rm:
        if now - f[0] < hsize:
            return f"not-maximal: removed file of age {now - f[0]} < limit {hsize}"
    if rm and size_over != now - hsize - rm[0][0]:
        return "units: wrong excess reported"
    if not rm and size_over != 0:
        return "units: nonzero excess with nothing removed"
    return None


# ----------------------------------------------------------------------------
# JsonHistoryGC.run : refuse / force rule, removal loop, unit decoding
# ----------------------------------------------------------------------------
_UNITS = ["commands", "files", "s", "b"]
_UNIT_ALIASES = ["cmds", "f", "s", "kb"]  # spellings to_history_tuple canonicalises (kb scales by 1024)


class _Env(dict):
    pass


def _reference_rm(units, hsize, files, now):
    """Largest suffix of newest files within the limit is kept."""
    if units == "s":
        n = 0
        for f in files:
            if now - f[0] >= hsize:
                n += 1
            else:
                break
        over = (now - hsize - files[0][0]) if n else 0
        return over, files[:n]
    idx = {"commands": 1, "b": 3}.get(units)
    keep = 0
    tot = 0
    for f in reversed(files):
        w = 1 if idx is None else f[idx]
        if tot + w > hsize:
            break
        tot += w
        keep += 1
    rm = files[: len(files) - keep]
    over = sum((1 if idx is None else f[idx]) for f in rm)
    return over, rm


def _make_gc(force):
    saved_start = hj.JsonHistoryGC.start
    hj.JsonHistoryGC.start = lambda self: None
    try:
        gc = hj.JsonHistoryGC(wait_for_shell=False, size=None, force=force)
    finally:
        hj.JsonHistoryGC.start = saved_start
    return gc


class _OS:
    """os facade for xonsh.history.json: remove is recorded, the rest is real."""

    def __init__(self, real, removed, fail=None):
        self._real = real
        self._removed = removed
        self._fail = fail
        self.path = real.path

    def remove(self, f):
        if self._fail is not None and f == self._fail:
            raise OSError("model: cannot remove")
        self._removed.append(f)

    def __getattr__(self, k):
        return getattr(self._real, k)


def ob_run(nmax: int, unit: int, hsize: int, force: bool, now: int, fail: int,
           recs: List[Tuple[int, int, int]], size_given: bool = False) -> Optional[str]:
    if len(recs) > nmax or hsize < 0 or now < 0 or not (0 <= unit < 4) or not (-1 <= fail < nmax):
        raise Skip()
    files = _mk_files(recs)
    if files and files[-1][0] > now:
        raise Skip()
    units = _UNITS[unit]
    removed: List[str] = []
    gc = _make_gc(force)
    gc.files = lambda only_unlocked=False: list(files) if only_unlocked else None
    saved = (hj.time, hj.os, XSH.env, getattr(XSH, "history", None), builtins.print)
    hj.time = _Clock(now)
    hj.os = _OS(saved[1], removed, fail=_NAMES[fail] if fail >= 0 else None)
    if size_given:
        # `history gc --size`: the limit comes from the command line through to_history_tuple, the env holds another one
        gc.size = (hsize, _UNIT_ALIASES[unit])
        XSH.env = _Env(XONSH_HISTORY_SIZE=(hsize + 7, "files"), XONSH_DEBUG=0)
    else:
        XSH.env = _Env(XONSH_HISTORY_SIZE=(hsize, units), XONSH_DEBUG=0)
    XSH.history = None
    hj.print = lambda *a, **k: None
    try:
        gc.run()
    finally:
        hj.time, hj.os, XSH.env, XSH.history = saved[0], saved[1], saved[2], saved[3]
        del hj.print
    if size_given and unit == 3:
        hsize = hsize * 1024
    over, rm = _reference_rm(units, hsize, files, now)
    expect = [f[2] for f in rm] if (force or over < hsize) else []
    if fail >= 0:
        expect = [f for f in expect if f != _NAMES[fail]]
    if removed != expect:
        return (f"run: units={units} limit={hsize} force={force} files={files}: removed {removed}, "
                f"expected {expect} (excess {over})")
    return None


# ----------------------------------------------------------------------------
# JsonHistoryGC.files : locked filter, stale-lock unlock, ordering
# ----------------------------------------------------------------------------
class _Sized:
    """len()-only stand-in for the 'sizes' index list (avoids building a list of symbolic length)."""

    def __init__(self, n):
        self.n = n

    def __len__(self):
        return self.n


class _LJ:
    """dict-like stand-in for LazyJSON over a symbolic file record."""

    def __init__(self, rec):
        self.rec = rec
        self.sizes = {"cmds": _Sized(rec["ncmds"] + 1)}

    def get(self, k, d=None):
        return self.rec.get(k, d)

    def __getitem__(self, k):
        return self.rec[k]

    def load(self):
        return dict(self.rec)

    def close(self):
        pass


class _Opened:
    def __init__(self, log, name):
        log.append(name)

    def __enter__(self):
        return self

    def __exit__(self, *a):
        return False

    def write(self, s):
        return len(s)


def _files_world(recs, boot, flags=None):
    """recs: (size, ts0, ts1, ncmds); flags: per file (locked, unreadable) - concrete per partition"""
    world = {}
    if flags is not None:
        if len(recs) != len(flags):
            raise Skip()
        recs = [(r[0], f[0], r[1], r[2], r[3], f[1]) for r, f in zip(recs, flags)]
    for i, (size, locked, ts0, ts1, ncmds, bad) in enumerate(recs):
        if size < 0 or ts0 < 0 or ncmds < 0 or ts1 < 0:
            raise Skip()
        world[f"f{i}"] = dict(size=size, locked=locked, ts=[ts0, ts1 if ts1 > 0 else None],
                              ncmds=ncmds, bad=bad, mtime=ts0)
    return world


def _run_files(world, boot, only_unlocked, rewritten):
    disk = {k: dict(v) for k, v in world.items()}

    class P:
        @staticmethod
        def getsize(f):
            return disk[f]["size"]

        @staticmethod
        def getmtime(f):
            return disk[f]["mtime"]

    pending = {}  # temp name -> what was dumped into it

    class _Tmp:
        def __init__(self, name):
            self.name = name

        def __enter__(self):
            return self

        def __exit__(self, *a):
            return False

        def write(self, s_):
            return len(s_)

    fds = {}

    class O:
        path = P

        @staticmethod
        def fdopen(fd, *a, **k):
            return _Tmp(fds[fd])

        @staticmethod
        def replace(src, dst):
            # the rewrite becomes visible atomically here
            rewritten.append(dst)
            disk[dst].update(locked=pending.pop(src))

    P.dirname = staticmethod(lambda f: "")
    O.rename = O.replace
    O.path = gappy(P, "os_path")

    class TF:
        @staticmethod
        def mkstemp(dir=None, suffix="", **k):
            fd = 500 + len(fds)
            fds[fd] = f"tmp{fd}{suffix}"
            return fd, fds[fd]

    def LazyJSON(f, reopen=True):
        if disk[f]["bad"] is True:
            raise ValueError("model: corrupt file")
        if disk[f]["bad"] == NO_TS:
            # valid JSON that is not a complete history file: no "ts" key (lj["ts"] raises KeyError, lj.get("ts", d) gives d)
            return _LJ({k: v for k, v in disk[f].items() if k != "ts"})
        return _LJ(disk[f])

    def ljdump(obj, fp, sort_keys=False):
        # the rewrite stores what it was given: in a temp file (current code) or in place (recorded by hj.open)
        if isinstance(fp, _Tmp):
            pending[fp.name] = obj["locked"]
        else:
            disk[rewritten[-1]].update(locked=obj["locked"])

    class X:
        pass

    x = X()
    x.LazyJSON = LazyJSON
    x.ljdump = ljdump

    class U:
        @staticmethod
        def boottime():
            return boot

    saved = (hj.os, hj.xlj, hj.uptime, hj._xhj_get_history_files, XSH.env, hj.time, hj.tempfile)
    hj.os, hj.xlj, hj.uptime, hj.tempfile = gappy(O, "os"), x, U, gappy(TF, "tempfile")
    hj._xhj_get_history_files = lambda sort=True, **k: list(disk)
    hj.open = lambda f, *a, **k: _Opened(rewritten, f)
    hj.time = _Clock(0)
    XSH.env = _Env(XONSH_DEBUG=0)
    gc = _make_gc(False)
    try:
        return gc.files(only_unlocked=only_unlocked), disk
    finally:
        hj.os, hj.xlj, hj.uptime, hj._xhj_get_history_files, XSH.env, hj.time, hj.tempfile = saved
        del hj.open


def ob_files_filter(flags: tuple, boot: int, only_unlocked: bool,
                    recs: List[Tuple[int, int, int, int]]) -> Optional[str]:
    if boot < 0:
        raise Skip()
    world = _files_world(recs, boot, flags)
    rewritten: List[str] = []
    out, disk = _run_files(world, boot, only_unlocked, rewritten)
    names = [f[2] for f in out]
    if len(set(names)) != len(names):
        return "files: duplicate entries"
    for name, w in world.items():
        live = w["locked"] and w["ts"][0] >= boot and w["size"] > 0 and not w["bad"]
        if live and only_unlocked and name in names:
            return f"live-listed: locked live session file {name} offered to GC ({w}, boot={boot})"
        if live and name in rewritten:
            return f"live-rewritten: locked live session file {name} was rewritten"
        stale = w["locked"] and w["ts"][0] < boot and w["size"] > 0 and not w["bad"]
        if stale and name not in rewritten:
            return f"stale-lock: {name} not unlocked"
        if not w["locked"] and name in rewritten:
            return f"rewrite: unlocked file {name} rewritten"
        expected = (not w["bad"] or w["size"] == 0) and not (live and only_unlocked)
        if expected and name not in names:
            return f"missing: {name} ({w}) not listed"
        if w["bad"] and w["size"] > 0 and name in names:
            return f"corrupt-listed: unreadable file {name} listed"
    if [f[0] for f in out] != sorted(f[0] for f in out):
        return "order: not sorted oldest first"
    for ts, ncmds, name, size in out:
        w = world[name]
        if w["size"] == 0:
            if ncmds != 0:
                return "empty: command count of an empty file not 0"
            continue
        if ncmds != w["ncmds"]:
            return f"count: {name} reports {ncmds} commands, has {w['ncmds']}"
        if size != w["size"]:
            return f"size: {name} reports {size}"
        exp_ts = w["ts"][1] or w["ts"][0]
        if ts != exp_ts:
            return f"ts: {name} reports {ts}, expected {exp_ts}"
    return None


def ob_end_to_end(flags: tuple, unit: int, hsize: int, force: bool, boot: int, now: int,
                  recs: List[Tuple[int, int, int, int]]) -> Optional[str]:
    """files() + run() composed: a live locked file is never removed; what is
    removed is exactly the oldest unlocked files beyond the limit."""
    if boot < 0 or hsize < 0 or not (0 <= unit < 4) or now < 0:
        raise Skip()
    world = _files_world(recs, boot, flags)
    for w in world.values():
        if (w["ts"][1] or w["ts"][0]) > now:
            raise Skip()
    rewritten: List[str] = []
    removed: List[str] = []
    units = _UNITS[unit]
    gc = _make_gc(force)
    real_files = hj.JsonHistoryGC.files

    def files(only_unlocked=False):
        out, _ = _run_files(world, boot, only_unlocked, rewritten)
        return out

    gc.files = files
    saved = (hj.time, hj.os, XSH.env, getattr(XSH, "history", None))
    hj.time = _Clock(now)
    hj.os = _OS(saved[1], removed)
    XSH.env = _Env(XONSH_HISTORY_SIZE=(hsize, units), XONSH_DEBUG=0)
    XSH.history = None
    hj.print = lambda *a, **k: None
    try:
        # _run_files swaps hj.os itself while listing and restores the recorder after
        gc.run()
    finally:
        hj.time, hj.os, XSH.env, XSH.history = saved
        del hj.print
    cands = []
    for name, w in world.items():
        live = w["locked"] and w["ts"][0] >= boot and w["size"] > 0 and not w["bad"]
        if live and name in removed:
            return f"live-removed: locked live session file {name} deleted ({w}, boot={boot})"
        if w["bad"] and w["size"] > 0:
            if name in removed:
                return f"corrupt-removed: unreadable file {name} deleted"
            continue
        if live:
            continue
        if w["size"] == 0:
            cands.append((w["mtime"], 0, name, 0))
        else:
            cands.append((w["ts"][1] or w["ts"][0], w["ncmds"], name, w["size"]))
    cands.sort()
    over, rm = _reference_rm(units, hsize, cands, now)
    expect = [f[2] for f in rm] if (force or over < hsize) else []
    if sorted(removed) != sorted(expect):
        return (f"e2e: units={units} limit={hsize} force={force} boot={boot} world={world}: "
                f"removed {removed}, expected {expect}")
    return None


NO_TS = 2  # third value of the 'unreadable' flag: readable JSON without the "ts" key (another kind of corrupt member)


def _flagsets(nmax, ordered=False):
    import itertools

    one = [(l, b) for l in (False, True) for b in (False, True)] + [(True, NO_TS)]
    out = []
    for n in range(nmax + 1):
        it = itertools.product(one, repeat=n) if ordered else itertools.combinations_with_replacement(one, n)
        for combo in it:
            out.append(tuple(combo))
    return out


def _parts(key, q, t):
    return {"quick": [{key: q}], "thorough": [{key: t}]}


_REC = "per file (ts, ncmds, size): unbounded non-negative ints, ts non-decreasing"
OBLIGATIONS = [
    Obligation("sel_commands", ob_commands, bounds="<=4 files (quick) / <=6 (thorough); integers unbounded",
               pre=["len(recs) <= nmax", "hsize >= 0"], parts=_parts("nmax", 4, 6),
               timeout={"quick": 90, "thorough": 900}, symbolic="hsize, " + _REC),
    Obligation("sel_bytes", ob_bytes, bounds="<=4 / <=6 files; integers unbounded",
               pre=["len(recs) <= nmax", "hsize >= 0"], parts=_parts("nmax", 4, 6),
               timeout={"quick": 90, "thorough": 900}, symbolic="hsize, " + _REC),
    Obligation("sel_files", ob_files, bounds="<=4 / <=6 files; integers unbounded",
               pre=["len(recs) <= nmax", "hsize >= 0"], parts=_parts("nmax", 4, 6),
               timeout={"quick": 90, "thorough": 900}, symbolic="hsize, " + _REC),
    Obligation("sel_seconds", ob_seconds, bounds="<=4 / <=6 files; integer clock",
               pre=["len(recs) <= nmax", "hsize >= 0", "now >= 0"], parts=_parts("nmax", 4, 6),
               timeout={"quick": 90, "thorough": 900}, symbolic="hsize, now, " + _REC),
    Obligation("gc_run", ob_run,
               bounds="<=3 / <=5 unlocked files, every unit, force flag, one optional failing os.remove; limit from the environment or (<=2 files) from `--size` through to_history_tuple with an alias unit spelling",
               pre=["len(recs) <= nmax", "hsize >= 0", "now >= 0", "-1 <= fail < nmax"],
               parts={"quick": [dict(nmax=3, unit=u, size_given=False) for u in range(4)] + [dict(nmax=2, unit=u, size_given=True, fail=-1) for u in (0, 1, 3)],
                      "thorough": [dict(nmax=5, unit=u, size_given=False) for u in range(4)] + [dict(nmax=3, unit=u, size_given=True, fail=-1) for u in (0, 1, 3)]},
               timeout={"quick": 240, "thorough": 1200},
               symbolic="hsize, force, now, index of failing remove, " + _REC),
    Obligation("gc_files_filter", ob_files_filter,
               bounds="exactly 0..2 files, every (locked, unreadable / readable-but-without-ts) flag pattern (thorough: plus three patterns of 3 files); "
                      "size, ts0, ts1, ncmds, boot unbounded ints",
               pre=["len(recs) == len(flags)", "boot >= 0"],
               parts={"quick": [dict(flags=fl) for fl in _flagsets(2)],
                      "thorough": [dict(flags=fl) for fl in _flagsets(2)]  # unordered: the files are symbolic and symmetric
                                  + [dict(flags=fl) for fl in (((False, False),) * 3, ((True, False), (False, False), (False, False)),
                                                               ((True, False), (True, False), (False, True)))]},  # 3 files: three patterns (each ~25 min of CPU)
               timeout={"quick": 240, "thorough": 1500},
               symbolic="boot time, only_unlocked; per file (size, ts0, ts1, ncmds)"),
    Obligation("gc_end_to_end", ob_end_to_end,
               bounds="quick: 0..1 files with every (locked, unreadable) pattern plus the pair (unlocked, live-locked); thorough: 0..2 files, every pattern; every unit",
               pre=["len(recs) == len(flags)", "boot >= 0", "hsize >= 0", "now >= 0"],
               parts={"quick": [dict(flags=fl, unit=u) for fl in _flagsets(1) + [((False, False), (True, False))]
                                for u in range(4)],
                      "thorough": [dict(flags=fl, unit=u) for fl in _flagsets(2) for u in range(4)]},
               timeout={"quick": 300, "thorough": 900},
               symbolic="limit, force, boot, now; per file (size, ts0, ts1, ncmds)"),
]
