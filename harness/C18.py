"""C18 - tab-completing a path always inserts text that means that path.

Real code executed: xonsh/completers/path.py _quote_paths, _quote_to_use, _raw_quote, _has_control_chars,
_path_from_partial_string; xonsh/lib/completion_quoting.py name_needs_quotes; xonsh/parsers/completion_context.py
CompletionContextParser.parse; and - as the reader - the real Execer (lexer, parser, expand_path) executing the
completed line with a recording run_subproc.
Symbolic (finite domain, forced case split): the characters of the file name (class representatives), the
opening-quote style the user typed; the characters of the line and the cursor position for the analyser.
"""

from __future__ import annotations

from typing import List, Optional

from vf.api import Obligation, Skip, concretely, viol
from vf.session import load_session

XSH = load_session()

import xonsh.completers.path as CP  # noqa: E402
import xonsh.procs.specs as S  # noqa: E402
from xonsh.parsers.completion_context import CompletionContextParser  # noqa: E402

STUBS = ["xonsh.procs.specs.run_subproc -> recorder of the argv the completed line hands over", "os.path.isdir on the candidate: real (names do not exist: plain files)"]
ASSUMPTIONS = ["the character pool holds one representative of every class the quoting code distinguishes (plain, blank, both quotes, backslash, $, ~, !, *, #, "
               "newline, tab, -, non-ASCII)", "$VF_UNSET-like names are not set in the session (no accidental expansion to a different existing value)"]
OUTSIDE = ["bash-completion bridge", "Completer.complete_line splicing", "names longer than 3 symbols / lines longer than 4 symbols"]

OPAQUE_NUMBER_FORMAT = True

POOL = ["a", " ", "'", '"', "\\", "$", "~", "!", "*", "#", "\n", "-", "\t", "é", "\u00a0"]  # last: a non-ASCII blank (NO-BREAK SPACE)
STYLES = [("", ""), ("'", "'"), ('"', '"'), ("r'", "'"), ('r"', '"')]
REC: List = []


def _rec(cmds, captured=False, envs=None, in_boolop=False):
    REC.append(cmds)
    return None


def _pick(pool, i):
    j = 0
    while j < len(pool) - 1 and i != j:
        j += 1
    return pool[j]


def _read_back(text):
    """execute `cmd <text>` with xonsh and return the arguments the command receives"""
    del REC[:]
    saved = S.run_subproc
    S.run_subproc = _rec
    XSH.env["XONSH_SUBPROC_RAISE_ERROR"] = False
    try:
        XSH.execer.exec("cmd " + text + "\n", glbs={}, locs=None)
    finally:
        S.run_subproc = saved
    if not REC:
        return None
    return list(REC[0][0])[1:]


SIBLINGS = [None, "z$s", "z\\s"]  # another candidate of the same completion (a name needing a raw string)


def _complete(name, style, sib=0):
    start, end = STYLES[style]
    r = _complete_one(name, start, end)
    if r:
        return r
    sibling = SIBLINGS[sib]
    if sibling is None or sibling == name:
        return None
    # the candidates of one completion are quoted together: each must still read back as its own file
    try:
        both, _ = CP._quote_paths([name, sibling], start, end)
    except Exception as e:  # noqa: BLE001
        return f"completer-crash: names {[name, sibling]!r} opening quote {start!r}: {type(e).__name__}: {e}"
    got = []
    for text in sorted(both):
        try:
            got.append(_read_back(text))
        except Exception as e:  # noqa: BLE001
            got.append([f"<{type(e).__name__}>"])
    if sorted(map(repr, got)) != sorted(map(repr, [[name], [sibling]])):
        return (f"wrong-file-with-sibling: candidates {[name, sibling]!r} (opening quote {start!r}) complete to {sorted(both)!r}, which xonsh reads as "
                f"{got!r}; alone, {name!r} completes to text that reads back correctly")
    return None


def _complete_one(name, start, end):
    try:
        out, _ = CP._quote_paths([name], start, end)
    except Exception as e:  # noqa: BLE001
        return f"completer-crash: name {name!r} opening quote {start!r}: {type(e).__name__}: {e}"
    text = next(iter(out))
    try:
        args = _read_back(text)
    except SyntaxError as e:
        kind = _kind(name, start, text)
        return f"{kind}: name {name!r} (opening quote {start!r}) completes to {text!r}, which xonsh rejects: {e}"
    except Exception as e:  # noqa: BLE001
        return f"reader-crash: name {name!r} -> {text!r}: {type(e).__name__}: {e}"
    if args != [name]:
        kind = _kind(name, start, text)
        return f"{kind}: name {name!r} (opening quote {start!r}) completes to {text!r}, which xonsh reads as {args!r}"
    return None


def _kind(name, start, text=""):
    if "!" in name:
        return "wrong-file-bang"
    t = text.lstrip()
    if t[:1] in ("r", "R") and t[1:2] in ("'", '"'):
        q = t[1]
        if q in name or name.endswith("\\") or any(ord(ch) < 32 for ch in name):
            # a raw string literal cannot express its own quote, a trailing backslash or a control character
            return "wrong-file-raw-string"
    if name.startswith("~"):
        return "wrong-file-leading-tilde"
    return "wrong-file"


def ob_complete(n: int, c0: int, c1: int, c2: int, style: int, sib: int) -> Optional[str]:
    if not (1 <= n <= 3 and 0 <= style < len(STYLES) and 0 <= sib < len(SIBLINGS)):
        raise Skip()
    cs = [c0, c1, c2]
    for i in range(3):
        if i < n:
            if not (0 <= cs[i] < len(POOL)):
                raise Skip()
        elif cs[i] != 0:
            raise Skip()
    name = "".join(_pick(POOL, cs[i]) for i in range(n))
    if name in (".", "..") or name.strip() == "" or "/" in name:
        raise Skip()
    r = concretely(_complete, name, _pick(list(range(len(STYLES))), style), _pick(list(range(len(SIBLINGS))), sib))
    if r:
        k, rest = r.split(":", 1)
        return viol(k, lambda: rest.strip())
    return None


# ----------------------------------------------------------------------------
# analyser
# ----------------------------------------------------------------------------
LPOOL = ["a", " ", "'", '"', "$", "-", "|", ";", "(", ")", "&", "r", "\\", "\n"]
PARSER = [None]


def _analyse(line, cursor):
    if PARSER[0] is None:
        PARSER[0] = CompletionContextParser()
    try:
        ctx = PARSER[0].parse(line, cursor)
    except Exception as e:  # noqa: BLE001
        return f"analyser-crash: parse({line!r}, {cursor}) raises {type(e).__name__}: {e}"
    if ctx is None or ctx.command is None:
        return None
    c = ctx.command
    if c.arg_index < 0:
        return None
    before, after = line[:cursor], line[cursor:]
    if not before.endswith(c.raw_prefix):
        return f"prefix-mismatch: parse({line!r}, {cursor}): reported prefix {c.raw_prefix!r} is not the text before the cursor ({before!r})"
    if not c.is_after_closing_quote and not after.startswith(c.suffix):
        return f"suffix-mismatch: parse({line!r}, {cursor}): reported suffix {c.suffix!r} is not the text after the cursor ({after!r})"
    return None


def ob_analyse(n: int, c0: int, c1: int, c2: int, c3: int, cursor: int, bare: bool) -> Optional[str]:
    if not (0 <= n <= 4 and 0 <= cursor <= n):
        raise Skip()
    cs = [c0, c1, c2, c3]
    for i in range(4):
        if i < n:
            if not (0 <= cs[i] < len(LPOOL)):
                raise Skip()
        elif cs[i] != 0:
            raise Skip()
    line = "".join(_pick(LPOOL, cs[i]) for i in range(n))
    if bare:
        # the symbols are the whole input (the line does not start with a command word)
        r = concretely(_analyse, line, _pick([0, 1, 2, 3, 4], cursor))
    else:
        r = concretely(_analyse, "l " + line, 2 + _pick([0, 1, 2, 3, 4], cursor))
    if r:
        k, rest = r.split(":", 1)
        return viol(k, lambda: rest.strip())
    return None


def _region_quote_linecont(args, v):
    # an opening quote, later a backslash-newline, cursor behind the backslash
    if not v.startswith("prefix-mismatch"):
        return False
    n = args.get("n", 0)
    cs = [args.get("c0", 0), args.get("c1", 0), args.get("c2", 0), args.get("c3", 0)][:n]
    cur = args.get("cursor", 0)
    for q in range(n):
        if cs[q] in (2, 3):
            for k in range(q + 1, n - 1):
                if cs[k] == 12 and cs[k + 1] == 13 and cur >= k + 1:
                    return True
    return False


TRAIL = ["cat 'draft  ", 'cat "draft  ', "cat r'dr  ", "ls 'a b   ", "ls '''x  ", "cat 'draft' ", "ls a  ", "ls 'a' 'b  "]


def ob_analyse_trailing(i: int, cursor: int) -> Optional[str]:
    """unclosed quoted last argument followed by blanks, cursor anywhere"""
    if not (0 <= i < len(TRAIL)):
        raise Skip()
    line = _pick(TRAIL, i)
    if not (0 <= cursor <= len(line)):
        raise Skip()
    r = concretely(_analyse, line, _pick(list(range(len(line) + 1)), cursor))
    if r:
        k, rest = r.split(":", 1)
        return viol(k, lambda: rest.strip())
    return None


def _region_raw(args, v):
    return v.startswith("wrong-file-raw-string")


def _region_bang(args, v):
    return v.startswith("wrong-file-bang")


def _region_tilde(args, v):
    return v.startswith("wrong-file-leading-tilde")


NP = len(POOL)
OBLIGATIONS = [
    Obligation("complete_and_read_back", ob_complete,
               bounds=f"file names of 1..3 symbols over a {NP}-symbol pool of class representatives, five opening-quote styles ('', ', \", r', r\"): "
                      "the text _quote_paths inserts, executed by xonsh as `cmd <text>`, must deliver exactly [name]; with a sibling candidate that needs a raw string "
                      "(names of <= 2 symbols; thorough: all) every candidate still reads back as its own file",
               pre=[f"0 <= c0 < {NP}", f"0 <= c1 < {NP}", f"0 <= c2 < {NP}"],
               parts={"quick": [dict(n=1), dict(n=2)] + [dict(n=3, style=s, c0=c, sib=0) for s in range(len(STYLES)) for c in range(NP)],
                      "thorough": [dict(n=1), dict(n=2)] + [dict(n=3, style=s, c0=c) for s in range(len(STYLES)) for c in range(NP)]},
               timeout={"quick": 240, "thorough": 600},
               regions={"C18-raw-string-cannot-express-name": _region_raw, "C18-bang": _region_bang, "C18-leading-tilde": _region_tilde},
               symbolic="symbol index per position, quote style"),
    Obligation("analyse", ob_analyse,
               bounds="command lines `l ` + up to 3 (quick) / 4 (thorough) symbols over {a, space, ', \", $, -, |, ;, (, ), &, r, backslash, newline} (also as the whole input, without the `l ` word), every cursor position: no exception; the "
                      "reported prefix/suffix are the text around the cursor",
               pre=[f"0 <= c{k} < {len(LPOOL)}" for k in range(4)] + ["0 <= cursor <= 4"],
               parts={"quick": [dict(n=k) for k in range(0, 3)] + [dict(n=3, c0=c) for c in range(len(LPOOL))],
                      "thorough": [dict(n=k) for k in range(0, 3)] + [dict(n=3, c0=c) for c in range(len(LPOOL))]
                                  + [dict(n=4, c0=c, c1=d) for c in range(len(LPOOL)) for d in range(len(LPOOL))]},
               timeout={"quick": 240, "thorough": 600}, regions={"C18-analyser-quote-backslash-newline": _region_quote_linecont},
               region_parts={"C18-analyser-quote-backslash-newline": lambda p: p.get("n", 0) >= 3},
               symbolic="symbol index per position, cursor"),
    Obligation("analyse_trailing_blanks", ob_analyse_trailing, bounds=f"{len(TRAIL)} lines ending in blanks after an (un)closed quoted argument, every cursor position",
               pre=["0 <= i < 8", "0 <= cursor <= 14"], timeout={"quick": 120, "thorough": 120}, symbolic="line index, cursor"),
]
