"""C08 - command lookup equals a POSIX $PATH search and never goes stale.

Real code executed symbolically: xonsh/procs/executables.py locate_executable,
locate_file, locate_relative_path, locate_file_in_path_env, clear_paths, get_paths,
is_file, is_executable_in_posix, is_explicit_path, _cached_dir_contains;
xonsh/commands_cache.py CommandsCache.update_cache, _update_and_check_changes,
_update_paths_cache, _iter_binaries, locate_binary, lazy_locate_binary, __contains__,
__iter__, executables_in.
A model file system (3 PATH directories + cwd, 2 command names) and a symbolic history of
edits; after every step all views must agree with a POSIX reference search computed on
the current model state.
"""

from __future__ import annotations

import posixpath
from typing import List, Optional

import xonsh.commands_cache as CC
import xonsh.procs.executables as E
from xonsh.built_ins import XSH

from vf.api import Gappy, Obligation, Skip, concretely, gappy, viol

STUBS = [
    "os (as seen from xonsh.procs.executables and xonsh.commands_cache) -> ModelFS facade: path.realpath/isdir/exists/getmtime/isfile/"
    "islink/join, access, scandir, listdir over a dict world; pathlib.Path (executables.py) -> model path class",
    "ModelFS contract (POSIX): a directory's mtime changes iff an entry is created, removed or renamed in it (not on chmod); "
    "access(X_OK) is the x bit; a broken symlink is neither file nor directory",
    "env -> dict with PATH (list), no PATHEXT, no stable-directory prefixes, commands cache enabled, no cache file; aliases -> empty",
    "time.perf_counter (debug timing) -> constant",
]
ASSUMPTIONS = [
    "the clock of the model file system is a counter of 4 ms ticks from an epoch-sized start (1.79e9 s): every mutation that touches a directory gives it a fresh, distinct float mtime",
    "case-sensitive POSIX file system",
]
OUTSIDE = ["Windows PATHEXT", "which file a spawned child really executes (execvp)", "$XONSH_COMMANDS_CACHE_READ_DIR_ONCE stable directories",
           "histories longer than the stated bound"]

OPAQUE_NUMBER_FORMAT = True

DIRS = ["/m/d0", "/m/d1", "/m/d2"]
CWD = "/m/cwd"
NAMES = ["a", "b"]
# per (dir, name): what is there
ENT = ["absent", "xfile", "file", "dir", "broken"]
# PATH entry pool: the three directories, a symlink to d0, a missing directory, the empty string, a relative entry
PATHPOOL = ["/m/d0", "/m/d1", "/m/d2", "/m/ln0", "/m/missing", "", "rel"]


def _pick(pool, i):
    j = 0
    while j < len(pool) - 1 and i != j:
        j += 1
    return pool[j]


# realistic st_mtime values: epoch-sized floats that differ by one scheduler tick - a comparison that rounds,
# truncates or tolerates (int(mtime), isclose) must not pass for equality
EPOCH = 1790000000.0
TICK = 0.004


class World:
    def __init__(self):
        self.ent = {}  # (dir, name) -> kind
        self.mtime = {}  # dir -> float (epoch seconds, like st_mtime)
        self.clock = EPOCH
        for d in DIRS + [CWD, "/m/cwd/rel"]:
            self.mtime[d] = EPOCH
        self.links = {"/m/ln0": "/m/d0"}

    def real(self, p):
        if not p.startswith("/"):
            p = posixpath.normpath(CWD + "/" + p)
        p = posixpath.normpath(p) if p else CWD
        for ln, tgt in self.links.items():
            if p == ln or p.startswith(ln + "/"):
                p = tgt + p[len(ln):]
        return p

    def kind(self, p):
        """'dir' / 'xfile' / 'file' / 'broken' / None for a path"""
        p = self.real(p)
        if p in self.mtime or p in ("/", "/m"):
            return "dir"
        d, n = posixpath.dirname(p), posixpath.basename(p)
        k = self.ent.get((d, n))
        if k is None or k == "absent":
            return None
        return k

    def touch_dir(self, d):
        self.clock += TICK
        self.mtime[d] = self.clock

    def set(self, d, n, k):
        old = self.ent.get((d, n), "absent")
        self.ent[(d, n)] = k
        appear = (old == "absent") != (k == "absent")
        replaced = old != k and old != "absent" and k != "absent" and {old, k} != {"xfile", "file"}
        if appear or replaced:
            self.touch_dir(d)  # create / delete / replace changes the directory; chmod does not


class _Entry:
    def __init__(self, w, d, n):
        self.w, self.d, self.name = w, d, n
        self.path = d + "/" + n

    def is_file(self):
        return self.w.kind(self.path) in ("xfile", "file")

    def __fspath__(self):
        return self.path


class MPath:
    W: World = None  # type: ignore

    def __init__(self, p):
        self.p = p.p if isinstance(p, MPath) else str(p)

    def __truediv__(self, o):
        return MPath(posixpath.join(self.p, str(o)))

    @property
    def name(self):
        return posixpath.basename(self.p)

    @property
    def parent(self):
        return MPath(posixpath.dirname(self.p) or ".")

    def is_file(self):
        return MPath.W.kind(self.p) in ("xfile", "file")

    def absolute(self):
        return MPath(self.p if self.p.startswith("/") else posixpath.normpath(CWD + "/" + self.p))

    def __fspath__(self):
        return self.p

    def __str__(self):
        return self.p


class ModelOS(Gappy):
    sep = "/"
    altsep = None
    X_OK = 1

    def __init__(self, w: World):
        self.w = w
        os_ = self

        class P:
            join = staticmethod(posixpath.join)
            basename = staticmethod(posixpath.basename)
            dirname = staticmethod(posixpath.dirname)
            normpath = staticmethod(posixpath.normpath)
            isabs = staticmethod(posixpath.isabs)

            @staticmethod
            def realpath(p):
                return w.real(os_.fspath(p))

            @staticmethod
            def isdir(p):
                return w.kind(os_.fspath(p)) == "dir"

            @staticmethod
            def exists(p):
                return w.kind(os_.fspath(p)) in ("dir", "xfile", "file")

            @staticmethod
            def isfile(p):
                return w.kind(os_.fspath(p)) in ("xfile", "file")

            @staticmethod
            def islink(p):
                return os_.fspath(p) in w.links or w.kind(os_.fspath(p)) == "broken"

            @staticmethod
            def getmtime(p):
                r = w.real(os_.fspath(p))
                if r not in w.mtime:
                    raise FileNotFoundError(r)
                return w.mtime[r]

        self.path = gappy(P, "os_path")

    @staticmethod
    def fspath(p):
        return p if isinstance(p, str) else p.__fspath__()

    def access(self, p, mode):
        return self.w.kind(self.fspath(p)) in ("xfile", "dir")

    def scandir(self, p):
        r = self.w.real(self.fspath(p))
        if r not in self.w.mtime:
            raise FileNotFoundError(r)
        return [_Entry(self.w, r, n) for (d, n), k in self.w.ent.items() if d == r and k != "absent"]

    def listdir(self, p):
        return [e.name for e in self.scandir(p)]


class _Env(dict):
    pass


class _Time:
    @staticmethod
    def perf_counter():
        return 0.0

    @staticmethod
    def time():
        return 0.0


def _install(w):
    mos = ModelOS(w)
    MPath.W = w
    E.os = mos
    E.Path = MPath
    E.time = _Time
    CC.os = mos
    E._stable_dir_cache.clear()
    return mos


def posix_search(w, path, name, snap=None):
    """The file execvp / `command -v` would choose."""
    if "/" in name:
        k = w.kind(name)
        return posixpath.normpath(CWD + "/" + name) if k == "xfile" and not name.startswith("/") else (name if k == "xfile" else None)
    seen = set()
    for ent in path:
        # POSIX: a zero-length entry denotes the current working directory
        r = w.real(ent) if ent else CWD
        if r in seen or w.kind(r) != "dir" or r not in w.mtime:
            continue  # duplicates and nonexistent entries contribute nothing
        seen.add(r)
        hit = (name in snap.get(r, ())) if snap is not None else (w.kind(r + "/" + name) == "xfile")
        if hit:
            return r + "/" + name
    return None


QUERY = ["a", "b", "./a", "sub/a", "/m/d1/a"]


class Snap:
    """What a cache keyed on directory mtimes can know: per directory the executable names at its last refresh.
    Used only to recognise the listed known finding (chmod does not change the directory's mtime)."""

    def __init__(self):
        self.names = {}
        self.mt = {}

    def refresh(self, w, path):
        for ent in path:
            r = w.real(ent) if ent else CWD
            if r in w.mtime and self.mt.get(r) != w.mtime[r]:
                self.mt[r] = w.mtime[r]
                self.names[r] = {n for (d, n), k in w.ent.items() if d == r and k == "xfile"}


def _views(w, env, cache, tag, snap=None):
    """compare every view with the reference on the current model state"""
    path = list(env["PATH"])
    if snap is not None:
        snap.refresh(w, path)
    for q in QUERY:
        ref = posix_search(w, path, q)
        got = E.locate_executable(q, env)
        if got != ref:
            k = "cwd-searched" if got is not None and got.startswith(CWD) and "/" not in q else "lookup"
            return viol(k, lambda: f"{tag}: PATH={path} locate_executable({q!r}) = {got!r}, POSIX search gives {ref!r}; world={_show(w)}")
    listing = set(iter(cache))
    for n in NAMES:
        ref = posix_search(w, path, n)
        got = cache.locate_binary(n)
        if got != ref:
            if snap is not None and got == posix_search(w, path, n, snap.names):
                return viol("cache-stale-chmod", lambda: f"{tag}: PATH={path} CommandsCache.locate_binary({n!r}) = {got!r}, POSIX search gives {ref!r} (listing keyed on the directory mtime is out of date); world={_show(w)}")
            return viol("cache-stale", lambda: f"{tag}: PATH={path} CommandsCache.locate_binary({n!r}) = {got!r}, POSIX search gives {ref!r}; world={_show(w)}")
        if (n in cache) != (ref is not None):
            return viol("cache-membership", lambda: f"{tag}: PATH={path} `{n} in commands_cache` is {n in cache}, POSIX search gives {ref!r}")
        if (n in listing) != (ref is not None):
            return viol("cache-listing", lambda: f"{tag}: PATH={path} completion listing {sorted(listing)} vs POSIX search {n!r} -> {ref!r}")
    return None


def _show(w):
    return {f"{d}/{n}": k for (d, n), k in sorted(w.ent.items()) if k != "absent"}


def _world(e00, e01, e10, e11, e20, e21, ec0):
    w = World()
    vals = [e00, e01, e10, e11, e20, e21]
    i = 0
    for d in DIRS:
        for n in NAMES:
            w.ent[(d, n)] = _pick(ENT, vals[i])
            i += 1
    w.ent[(CWD, "a")] = _pick(ENT, ec0)  # a file named like a command in the current directory
    w.ent[("/m/cwd/sub", "a")] = "absent"
    w.ent[("/m/cwd/rel", "b")] = "xfile"
    return w


def _path(plen, p0, p1, p2):
    ps = [p0, p1, p2]
    for i in range(3):
        if i < plen:
            if not (0 <= ps[i] < len(PATHPOOL)):
                raise Skip()
        elif ps[i] != 0:
            raise Skip()
    return [_pick(PATHPOOL, ps[i]) for i in range(plen)]


def ob_lookup(plen: int, p0: int, p1: int, p2: int, e00: int, e01: int, e10: int, e11: int, e20: int, e21: int, ec0: int) -> Optional[str]:
    """single lookup on an arbitrary layout: all views vs the POSIX reference"""
    for v in (e00, e01, e10, e11, e20, e21, ec0):
        if not (0 <= v < len(ENT)):
            raise Skip()
    ents = [_pick(list(range(len(ENT))), v) for v in (e00, e01, e10, e11, e20, e21, ec0)]
    path = _path(plen, p0, p1, p2)

    def run():
        w = _world(*ents)
        _install(w)
        env = _Env(PATH=path, ENABLE_COMMANDS_CACHE=True)
        XSH.env = env
        cache = CC.CommandsCache(env, aliases={})
        return _views(w, env, cache, "fresh lookup")

    return concretely(run)


STEPS = ["create_x", "delete", "chmod_minus_x", "chmod_plus_x", "replace_by_dir", "path_reverse", "path_append", "path_insert0", "path_pop0",
         "relink"]  # relink: the symlinked $PATH entry /m/ln0 is re-pointed from d0 to d1 (or back)


def ob_history(nsteps: int, plen: int, p0: int, p1: int, p2: int, e00: int, e10: int, e20: int,
               s0: int, d0: int, s1: int, d1: int, s2: int, d2: int, pa: int) -> Optional[str]:
    """lookup, then a history of edits with a lookup after each: nothing may go stale (one command name)"""
    for v in (e00, e10, e20):
        if not (0 <= v < 3):
            raise Skip()
    steps = [(s0, d0), (s1, d1), (s2, d2)]
    for i in range(3):
        if i < nsteps:
            if not (0 <= steps[i][0] < len(STEPS) and 0 <= steps[i][1] < 3):
                raise Skip()
        elif steps[i] != (0, 0):
            raise Skip()
    if not (0 <= pa < len(PATHPOOL)):
        raise Skip()
    ents = [_pick([0, 1, 2], v) for v in (e00, e10, e20)]
    path0 = _path(plen, p0, p1, p2)
    ops = [(_pick(STEPS, steps[i][0]), _pick(DIRS, steps[i][1]), steps[i][1] != 0) for i in range(nsteps)]
    extra = _pick(PATHPOOL, pa)
    # (the appended entry is irrelevant when no step appends; partitions may pin it)
    return concretely(_run_history, ents, path0, ops, extra)


class _SkipInside(Exception):
    pass


def _run_history(ents, path0, ops, extra):
    try:
        return _run_history_inner(ents, path0, ops, extra)
    except _SkipInside:
        return None


def _run_history_inner(ents, path0, ops, extra):
    w = _world(ents[0], 0, ents[1], 0, ents[2], 0, 0)
    _install(w)
    env = _Env(PATH=list(path0), ENABLE_COMMANDS_CACHE=True)
    XSH.env = env
    cache = CC.CommandsCache(env, aliases={})
    snap = Snap()
    c = _views(w, env, cache, "initial lookup", snap)
    if c:
        return c
    trail = []
    for op, d, dnz in ops:
        cur = w.ent.get((d, "a"), "absent")
        if op == "create_x":
            if cur != "absent":
                raise _SkipInside()
            w.set(d, "a", "xfile")
        elif op == "delete":
            if cur == "absent":
                raise _SkipInside()
            w.set(d, "a", "absent")
        elif op == "chmod_minus_x":
            if cur != "xfile":
                raise _SkipInside()
            w.set(d, "a", "file")
        elif op == "chmod_plus_x":
            if cur != "file":
                raise _SkipInside()
            w.set(d, "a", "xfile")
        elif op == "replace_by_dir":
            if cur not in ("xfile", "file"):
                raise _SkipInside()
            w.set(d, "a", "dir")
        else:
            if dnz:
                raise _SkipInside()
            p = list(env["PATH"])
            if op == "relink":
                if "/m/ln0" not in p:
                    raise _SkipInside()
                w.links["/m/ln0"] = "/m/d1" if w.links["/m/ln0"] == "/m/d0" else "/m/d0"
            elif op == "path_reverse":
                if len(p) < 2:
                    raise _SkipInside()
                p.reverse()
            elif op == "path_append":
                p.append(extra)
            elif op == "path_insert0":
                p.insert(0, extra)
            elif op == "path_pop0":
                if not p:
                    raise _SkipInside()
                p.pop(0)
            env["PATH"] = p
        trail.append((op, d if not op.startswith("path") else None))
        c = _views(w, env, cache, f"after {trail}", snap)
        if c:
            return c
    return None


def _region_chmod(args, v):
    return v.startswith("cache-stale-chmod")


def direct_reference_vs_sh(tier):
    """Oracle validation (not a solver query): the POSIX reference search used by the obligations agrees with
    /bin/sh `command -v` on real directory trees mirroring sampled model worlds (incl. empty / missing / duplicate /
    symlinked / relative $PATH entries, non-executable shadows, directories and broken links named like commands)."""
    import itertools
    import os
    import shutil
    import subprocess
    import tempfile
    import time

    t0 = time.time()
    root = tempfile.mkdtemp(prefix="vf_c08_")
    n = 0
    try:
        samples = []
        layouts = list(itertools.product(range(5), repeat=3))[:: 7 if tier == "quick" else 2]
        # (the empty list has no POSIX string form: "" denotes one empty entry, i.e. the cwd - see finding C10-single-empty-path-entry)
        paths = [["/m/d0"], ["/m/d1", "/m/d0"], ["", "/m/d0"], ["/m/missing", "/m/d2", "/m/d0"], ["/m/ln0", "/m/d1"], ["rel", "/m/d1"],
                 ["/m/d0", "/m/d0", "/m/d1"], ["/m/d2", "", "/m/ln0"]]
        for (e0, e1, e2) in layouts:
            for ec in (0, 1):
                w = _world(e0, 0, e1, 0, e2, 0, ec)
                top = os.path.join(root, f"w{n}")
                n += 1
                for d in DIRS + [CWD, "/m/cwd/rel"]:
                    os.makedirs(top + d)
                os.symlink(top + "/m/d0", top + "/m/ln0")
                for (d, name), k in w.ent.items():
                    fp = top + d + "/" + name
                    if not os.path.isdir(top + d):
                        continue
                    if k == "xfile" or k == "file":
                        with open(fp, "w") as f:
                            f.write("#!/bin/sh\n")
                        os.chmod(fp, 0o755 if k == "xfile" else 0o644)
                    elif k == "dir":
                        os.makedirs(fp)
                    elif k == "broken":
                        os.symlink(fp + ".nowhere", fp)
                for pth in paths:
                    real_path = ":".join((top + e if e.startswith("/") else e) for e in pth)
                    r = subprocess.run(["/bin/sh", "-c", "command -v a"], cwd=top + CWD, env={"PATH": real_path}, capture_output=True, text=True)
                    sh = r.stdout.strip() or None
                    ref = posix_search(w, pth, "a")
                    ref_real = None if ref is None else os.path.realpath(top + ref)
                    sh_real = None if sh is None else os.path.realpath(os.path.join(top + CWD, sh))
                    if ref_real != sh_real:
                        return dict(verdict="error", detail=f"reference POSIX search disagrees with /bin/sh: PATH={pth} world={_show(w)}: reference {ref!r}, sh {sh!r}",
                                    queries=0, solver_s=0.0)
                    if len(samples) < 3:
                        samples.append(dict(PATH=pth, world=_show(w), sh=sh, reference=ref))
                shutil.rmtree(top, ignore_errors=True)
        return dict(verdict="confirmed", queries=0, solver_s=0.0, paths=n * len(paths), samples=samples,
                    detail=f"reference agrees with /bin/sh command -v on {n * len(paths)} (layout, PATH) instances", wall_s=round(time.time() - t0, 2))
    finally:
        shutil.rmtree(root, ignore_errors=True)


_EP = ["0 <= e00 < 5", "0 <= e01 < 5", "0 <= e10 < 5", "0 <= e11 < 5", "0 <= e20 < 5", "0 <= e21 < 5", "0 <= ec0 < 5"]
OBLIGATIONS = [
    Obligation("reference_vs_sh", None, direct=direct_reference_vs_sh,
               bounds="oracle validation on real directory trees: the reference POSIX search vs /bin/sh `command -v` (sampled layouts x 8 $PATH shapes)",
               symbolic="none (concrete validation of the reference model)"),
    Obligation("lookup", ob_lookup,
               bounds="3 PATH directories x 2 names, each entry absent / executable file / non-executable file / directory / broken link; a "
                      "same-named file in the cwd; $PATH of 0..2 (quick) / 0..3 (thorough) entries over {d0,d1,d2, symlink to d0, missing, '', relative}; "
                      "queries a, b, ./a, sub/a, /m/d1/a",
               pre=_EP + ["0 <= p0 < 7", "0 <= p1 < 7", "0 <= p2 < 7"],
               parts={"quick": [dict(plen=0, e01=0, e11=0, e21=0, e20=0)] + [dict(plen=1, p0=i, e21=0, e20=0, e11=0) for i in range(7)]
                               + [dict(plen=2, p0=i, p1=j, e01=0, e11=0, e21=0, e20=0) for i in range(7) for j in range(7)]
                               + [dict(plen=3, p0=0, p1=1, e01=0, e11=0, e21=0, ec0=1), dict(plen=3, p0=3, p1=0, e01=0, e11=0, e21=0, ec0=1)],
                      "thorough": [dict(plen=2, p0=i, p1=j, e21=0) for i in range(7) for j in range(7)]
                                  + [dict(plen=3, p0=i, p1=j, e01=0, e11=0, e21=0) for i in range(7) for j in range(7)]},
               timeout={"quick": 200, "thorough": 1500},
               symbolic="entry kinds per (directory, name), PATH entries"),
    Obligation("history", ob_history,
               bounds="one command name over 3 directories (absent / executable / non-executable), $PATH of 2 entries (quick) / 1..3 (thorough), "
                      "then 1..2 (quick) / 3 (thorough) steps out of create, delete, chmod -x, chmod +x, replace by directory, $PATH reverse / "
                      "append / insert(0) / pop(0), re-pointing the symlinked $PATH entry, with every view checked after every step",
               pre=["0 <= e00 < 3", "0 <= e10 < 3", "0 <= e20 < 3", "0 <= pa < 7", "0 <= p0 < 7", "0 <= p1 < 7", "0 <= p2 < 7"],
               parts={"quick": [dict(nsteps=1, plen=2, p0=i, p1=j, s0=k) for i in (0, 3) for j in (1, 2) for k in range(len(STEPS))]
                               + [dict(nsteps=2, plen=2, p0=0, p1=1, pa=2, s0=k, s1=m) for k in range(len(STEPS)) for m in range(len(STEPS))]
                               + [dict(nsteps=2, plen=2, p0=3, p1=2, pa=2, s0=k, s1=m) for k in (0, 1, 9) for m in (0, 1, 9)],
                      "thorough": [dict(nsteps=2, plen=2, p0=i, p1=j, s0=k) for i in (0, 1, 3, 4) for j in (0, 1, 2) for k in range(len(STEPS))]
                                  + [dict(nsteps=3, plen=2, p0=0, p1=1, s0=k, s1=m, e20=0, pa=2) for k in range(len(STEPS)) for m in range(len(STEPS))],},
               timeout={"quick": 240, "thorough": 1500},
               regions={"C08-cache-misses-chmod": _region_chmod},
               symbolic="initial entry kinds, step kinds and directories, appended PATH entry"),
]
