"""C19 - cached bytecode never changes what a script does.

Real code executed: xonsh/codecache.py script_cache_check, code_cache_check,
_check_cache_versions, run_script_with_cache, run_code_with_cache, should_use_cache,
update_cache, get_cache_filename, _cache_renamer, _splitpath, code_cache_name.
Symbolic: source / cache modification times (reals), the cache switches, the truncation
offset and the flipped bit of a real cache file, script contents (by tag).
"""

from __future__ import annotations

import io
import marshal
from typing import Optional

import xonsh.codecache as C
from xonsh.built_ins import XSH

from vf.api import Obligation, Skip, concretely, gappy, viol

STUBS = [
    "os.stat / os.path.isfile / os.makedirs / open / is_writable_file as seen from xonsh.codecache -> in-memory files with explicit mtimes; "
    "writing a cache file stamps it with the model clock",
    "compile_code -> real compile() of a tiny program that records which source text ran (so 'which source executed' is observable)",
    "marshal.load/dump stay real (C boundary: the solver case-splits the corruption, each case is concrete there)",
    "$XONSH_DATA_DIR -> /data; execer -> object with scriptcache/cacheall flags",
]
ASSUMPTIONS = [
    "file modification times are real numbers; the model clock is strictly increasing across writes unless an obligation makes it symbolic",
    "a cache entry written by update_cache is what a crash truncates (any prefix) or what bit rot flips (one bit in the header or the first 16 payload bytes)",
]
OUTSIDE = ["md5 collision freedom", "imphooks import caching", "bit flips deeper in the marshal payload (marshal.load on arbitrary bytes can crash CPython itself)"]

OPAQUE_NUMBER_FORMAT = True


class _Stat:
    def __init__(self, m):
        self.st_mtime = m


class FS:
    def __init__(self):
        self.files = {}  # path -> [bytes, mtime]
        self.clock = 100.0

    def write(self, path, data, mtime=None):
        if mtime is None:
            self.clock += 1.0
            mtime = self.clock
        self.files[path] = [data, mtime]


class _WB(io.BytesIO):
    def __init__(self, fs, path):
        super().__init__()
        self.fs, self.path = fs, path

    def close(self):
        self.fs.write(self.path, self.getvalue())
        super().close()

    def __exit__(self, *a):
        self.close()
        return False


def _install(fs):
    class P:
        @staticmethod
        def isfile(p):
            return p in fs.files

        @staticmethod
        def exists(p):
            return p in fs.files

        join = staticmethod(__import__("posixpath").join)
        split = staticmethod(__import__("posixpath").split)
        dirname = staticmethod(__import__("posixpath").dirname)
        realpath = staticmethod(lambda p: p)

    class O:
        path = gappy(P, "os_path")

        @staticmethod
        def stat(p):
            if p not in fs.files:
                raise FileNotFoundError(p)
            return _Stat(fs.files[p][1])

        @staticmethod
        def makedirs(*a, **k):
            pass

    def _open(path, mode="r", *a, **k):
        if "w" in mode:
            return _WB(fs, path)
        if path not in fs.files:
            raise FileNotFoundError(path)
        data = fs.files[path][0]
        return io.BytesIO(data) if "b" in mode else io.StringIO(data.decode())

    C.os = gappy(O, "os")
    C.open = _open
    C.is_writable_file = lambda p: True
    C.print_warning = lambda *a, **k: None


RAN = []


def _compile_code(filename, code, execer, glb, loc, mode):
    # the compiled program records which source text it was compiled from
    return compile(f"__vf_ran__.append({code!r})", filename, "exec")


C.compile_code = _compile_code


class _Execer:
    def __init__(self, scriptcache, cacheall):
        self.scriptcache, self.cacheall = scriptcache, cacheall
        self.filename = None


class _Env(dict):
    pass


def _env(cache_scripts, cache_everything):
    XSH.env = _Env(XONSH_DATA_DIR="/data", XONSH_CACHE_SCRIPTS=cache_scripts, XONSH_CACHE_EVERYTHING=cache_everything, XONSH_DEBUG=0)


SCRIPT = "/s/prog.xsh"


def _run_script(fs, execer):
    del RAN[:]
    r = C.run_script_with_cache(SCRIPT, execer, glb={"__vf_ran__": RAN}, loc=None, mode="exec")
    if r is not None and r[0] is not None:
        raise r[1]
    return list(RAN)


# ----------------------------------------------------------------------------
# 1. validity decision: cached code only if not older than the source
# ----------------------------------------------------------------------------
def ob_validity(cache_m: float, src_m: float, present: bool) -> Optional[str]:
    if not (0.0 <= cache_m <= 1e9 and 0.0 <= src_m <= 1e9):
        raise Skip()
    fs = FS()
    _install(fs)
    _env(True, False)
    fs.write(SCRIPT, b"new", mtime=src_m)
    cname = C.get_cache_filename(SCRIPT, code=False)
    if present:
        # a valid entry compiled from the *previous* source text
        buf = _WB(fs, cname)
        buf.write(C.XONSH_VERSION.encode() + b"\n" + bytes(C.PYTHON_VERSION_INFO_BYTES) + b"\n")
        marshal.dump(_compile_code(SCRIPT, "old", None, None, None, "exec"), buf)
        buf.close()
        fs.files[cname][1] = cache_m
    use, code = C.script_cache_check(SCRIPT, cname)
    if not present:
        if use or code is not None:
            return viol("phantom-cache", lambda: "cached code reported although no cache entry exists")
        return None
    if src_m > cache_m and use:
        return viol("stale-cache-used", lambda: f"source mtime {src_m} is newer than cache mtime {cache_m} but the cached code would run")
    if src_m <= cache_m and not use:
        return viol("valid-cache-ignored", lambda: f"cache mtime {cache_m} >= source mtime {src_m} but the entry is not used")
    return None


# ----------------------------------------------------------------------------
# 2. histories: run, edit, run - with every combination of switches; cache on == cache off
# ----------------------------------------------------------------------------
def ob_history(scriptcache: bool, cacheall: bool, env_scripts: bool, env_all: bool, edit_dt: float, touch: bool) -> Optional[str]:
    """run; edit the script (new text, mtime = first-run time + edit_dt) or only touch it; run again"""
    if not (-5.0 <= edit_dt <= 5.0):
        raise Skip()
    fs = FS()
    _install(fs)
    _env(True if env_scripts else False, True if env_all else False)
    ex = _Execer(True if scriptcache else False, True if cacheall else False)
    fs.write(SCRIPT, b"v1", mtime=50.0)
    first = _run_script(fs, ex)
    if first != ["v1"]:
        return viol("first-run", lambda: f"first run executed {first}")
    cname = C.get_cache_filename(SCRIPT, code=False)
    t_cache = fs.files[cname][1] if cname in fs.files else None
    base = t_cache if t_cache is not None else 101.0
    new_m = base + edit_dt
    if new_m < 0:
        raise Skip()
    fs.write(SCRIPT, b"v1" if touch else b"v2", mtime=new_m)
    second = _run_script(fs, ex)
    want = "v1" if touch else "v2"
    if second != [want]:
        if t_cache is not None and not (new_m > t_cache):
            # the property only demands the new source once its mtime is NEWER than the entry
            return None
        return viol("stale-after-edit", lambda: (
            f"switches(scriptcache={scriptcache}, cacheall={cacheall}, $XONSH_CACHE_SCRIPTS={env_scripts}, $XONSH_CACHE_EVERYTHING={env_all}): "
            f"script edited {edit_dt}s after the cache entry was written, second run executed {second}, expected [{want!r}]"))
    # different code strings never share an entry
    return None


def ob_code_entries(cacheall: bool, env_all: bool, same: bool) -> Optional[str]:
    """-c code: two code strings run one after the other with caching in any state"""
    fs = FS()
    _install(fs)
    _env(False, True if env_all else False)
    ex = _Execer(False, True if cacheall else False)
    outs = []
    for code in ("a = 1", "a = 1" if same else "a = 2", "a = 1"):
        del RAN[:]
        r = C.run_code_with_cache(code, "<c>", ex, glb={"__vf_ran__": RAN}, loc=None, mode="exec")
        if r is not None and r[0] is not None:
            return viol("code-run-failed", lambda: f"{code!r}: {r[1]!r}")
        outs.append(list(RAN))
    want = [["a = 1\n"] if False else ["a = 1"], ["a = 1"] if same else ["a = 2"], ["a = 1"]]
    got = [[s.rstrip("\n") for s in o] for o in outs]
    if got != want:
        return viol("code-entry-shared", lambda: f"cacheall={cacheall} $XONSH_CACHE_EVERYTHING={env_all}: ran {got}, expected {want}")
    return None


# ----------------------------------------------------------------------------
# 3. truncation / corruption of a real cache entry
# ----------------------------------------------------------------------------
_ENTRY = {}


def _entry(kind):
    if kind not in _ENTRY:
        fs = FS()
        _install(fs)
        _env(True, True)
        code = _compile_code(SCRIPT, "payload", None, None, None, "exec")
        C.update_cache(code, "/data/x")
        _ENTRY[kind] = (fs.files["/data/x"][0], code)
    return _ENTRY[kind]


def _load(kind, data):
    fs = FS()
    _install(fs)
    _env(True, True)
    fs.write(SCRIPT, b"payload", mtime=1.0)
    fs.write("/data/x", data, mtime=2.0)
    try:
        if kind == "script":
            return C.script_cache_check(SCRIPT, "/data/x"), None
        return C.code_cache_check("/data/x"), None
    except BaseException as e:  # noqa: BLE001
        return None, e


def _pick_int(n, i):
    j = 0
    while j < n - 1 and i != j:
        j += 1
    return j


def ob_truncate(kind_i: int, k: int) -> Optional[str]:
    kind = "script" if kind_i == 0 else "code"
    data, code = concretely(_entry, kind)
    if not (0 <= k <= len(data)):
        raise Skip()
    kk = _pick_int(len(data) + 1, k)
    res, exc = concretely(_load, kind, data[:kk])
    if exc is not None:
        return viol("fatal", lambda: f"{kind} cache entry truncated to {kk} of {len(data)} bytes: {type(exc).__name__}: {exc}")
    use, got = res
    if kk < len(data):
        if use or got is not None:
            return viol("truncated-entry-used", lambda: f"{kind} cache entry truncated to {kk} of {len(data)} bytes is reported usable")
    elif not use or got != code:
        return viol("valid-cache-ignored", lambda: f"complete {kind} cache entry not used")
    return None


def ob_bitflip(kind_i: int, off: int, bit: int) -> Optional[str]:
    kind = "script" if kind_i == 0 else "code"
    data, code = concretely(_entry, kind)
    hdr = len(C.XONSH_VERSION.encode()) + 1 + len(bytes(C.PYTHON_VERSION_INFO_BYTES)) + 1
    lim = hdr + 16
    if not (0 <= off < lim and 0 <= bit < 8):
        raise Skip()
    o, b = _pick_int(lim, off), _pick_int(8, bit)
    bad = bytearray(data)
    bad[o] ^= 1 << b
    res, exc = concretely(_load, kind, bytes(bad))
    if exc is not None:
        return viol("fatal", lambda: f"{kind} cache entry with bit {b} of byte {o} flipped: {type(exc).__name__}: {exc} escapes")
    use, got = res
    if o < hdr and use:
        return viol("foreign-version-used", lambda: f"{kind} cache entry whose version header differs (byte {o}) is reported usable")
    if use and not hasattr(got, "co_code"):
        return viol("garbage-executed", lambda: f"{kind} cache entry with byte {o} corrupted yields a non-code object {type(got).__name__} to execute")
    return None


# ----------------------------------------------------------------------------
# 4. cache file names are injective: the renaming has a left inverse
# ----------------------------------------------------------------------------
SIGMA = ["a", "Z", "_", ".", "/", "-", "z", "A"]  # one representative per class the table distinguishes (+ separator)


def _decode_component(w):
    out = []
    i = 0
    while i < len(w):
        if w[i] == "_":
            if i + 1 >= len(w):
                return None
            c = w[i + 1]
            out.append("_" if c == "_" else "." if c == "." else c.upper())
            i += 2
        else:
            out.append(w[i])
            i += 1
    return "".join(out)


def _roundtrip(path):
    import sys

    tag = "." + sys.implementation.cache_tag
    comps = [c for c in path.split("/") if c]
    if not comps or path.endswith("/"):
        return None  # not the path of a script file
    o = C._cache_renamer(path, code=True)
    if not o[-1].endswith(tag):
        return f"cache tag missing in {o}"
    o = list(o[:-1]) + [o[-1][: -len(tag)]]
    back = [_decode_component(w) for w in o]
    if back != comps:
        return f"{path!r} -> {o} decodes to {back}, not {comps}: two different scripts can share a cache file"
    for w in o:
        if "/" in w or w in ("", ".", ".."):
            return f"{path!r} -> unsafe cache path component {w!r}"
    return None


def ob_renamer(n: int, c0: int, c1: int, c2: int, c3: int, c4: int) -> Optional[str]:
    cs = [c0, c1, c2, c3, c4]
    for i in range(5):
        if i < n:
            if not (0 <= cs[i] < len(SIGMA)):
                raise Skip()
        elif cs[i] != 0:
            raise Skip()
    chars = [SIGMA[_pick_int(len(SIGMA), cs[i])] for i in range(n)]
    path = "/" + "".join(chars)

    def run():
        C.os = __import__("os")
        return _roundtrip(path)

    r = concretely(run)
    if r:
        return viol("cache-name-collision", lambda: r)
    return None


OBLIGATIONS = [
    Obligation("validity", ob_validity, bounds="source and cache mtimes arbitrary reals in [0, 1e9]; cache entry present or absent",
               pre=["0.0 <= cache_m <= 1e9", "0.0 <= src_m <= 1e9"], timeout={"quick": 60, "thorough": 120},
               symbolic="two real-valued modification times"),
    Obligation("history", ob_history, bounds="run; edit or touch the script at cache-write time + dt, dt any real in [-5, 5]; run; all 16 switch settings",
               pre=["-5.0 <= edit_dt <= 5.0"], timeout={"quick": 120, "thorough": 300},
               symbolic="edit time offset (real), four switches, edit vs touch"),
    Obligation("code_entries", ob_code_entries, bounds="three -c runs with equal/different code strings, cache switches symbolic",
               timeout={"quick": 60, "thorough": 60}, symbolic="switches, same/different"),
    Obligation("truncate", ob_truncate, bounds="every truncation length 0..len of a real cache entry written by update_cache, script and code store",
               pre=["0 <= k <= 400"], parts={"quick": [dict(kind_i=0), dict(kind_i=1)]}, timeout={"quick": 200, "thorough": 300},
               symbolic="truncation offset"),
    Obligation("bitflip", ob_bitflip, bounds="one flipped bit anywhere in the two version header lines or the first 16 payload bytes",
               pre=["0 <= off < 80", "0 <= bit < 8"], parts={"quick": [dict(kind_i=0), dict(kind_i=1)]}, timeout={"quick": 200, "thorough": 300},
               symbolic="byte offset, bit index"),
    Obligation("renamer", ob_renamer,
               bounds="script paths of up to 5 characters over one representative per character class of the renaming table "
                      "(lower, upper, '_', '.', other) plus the separator: renaming followed by an independent decoder is the identity",
               pre=["0 <= c0 < 8", "0 <= c1 < 8", "0 <= c2 < 8", "0 <= c3 < 8", "0 <= c4 < 8"],
               parts={"quick": [dict(n=k) for k in range(1, 4)] + [dict(n=4, c0=i) for i in range(8)],
                      "thorough": [dict(n=k) for k in range(1, 4)] + [dict(n=4, c0=i) for i in range(8)] + [dict(n=5, c0=i, c1=j) for i in range(8) for j in range(8)]},
               timeout={"quick": 200, "thorough": 600}, symbolic="character class index per position"),
]
