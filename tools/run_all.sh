#!/bin/bash
# usage: run_all.sh <tier> [ids...]   -- run checks sequentially, log to /verif/evidence/run_<tier>.log (evidence files are rewritten)
TIER=${1:-quick}; shift
IDS=${@:-C02 C03 C04 C05 C07 C08 C09 C10 C11 C12 C13 C14 C15 C16 C17 C18 C19 C20}
cd /verif
for id in $IDS; do
  echo "=== $id $(date +%H:%M:%S)"
  ./check $id --tier $TIER 2>&1 | grep -a -v "DeprecationWarning\|_set_item(key\|SyntaxWarning\|converter(val)" | cut -c1-300 | tail -12
  echo "exit=${PIPESTATUS[0]}"
done
