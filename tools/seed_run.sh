#!/bin/bash
# usage: seed_run.sh <PROP> <seed-dir> [extra check args]   -- run a check against /repo with a seeded patch applied, then restore /repo
PROP=$1; SD=$2; shift 2
cd /repo || exit 2
if [ -n "$(git status --porcelain)" ]; then echo "/repo not clean"; exit 2; fi
git apply "$SD/patch.diff" || { echo "patch does not apply"; exit 2; }
cd /verif; ./check "$PROP" --no-evidence "$@" 2>&1 | grep -a -v "DeprecationWarning\|_set_item(key" | tail -${TAILN:-8}
RC=${PIPESTATUS[0]}
git -C /repo checkout -- .
echo "check exit code: $RC"
