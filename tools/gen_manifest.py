#!/usr/bin/env python3
"""Regenerate /verif/MANIFEST.json from the table below (run from /verif)."""
import json
import os

HERE = os.path.dirname(os.path.dirname(os.path.abspath(__file__)))

TECH = "bounded symbolic execution of the real xonsh code (CrossHair 0.0.110) with z3 deciding every path"

CHECKS = {
    "C14": dict(
        text="Bounded model checking of the real JSON-history GC code: the four selectors, JsonHistoryGC.run (refuse/force rule, "
             "removal loop) and JsonHistoryGC.files (locked filter, stale-lock unlock, ordering) are executed symbolically over "
             "arbitrary file collections (unbounded integer timestamps, command counts, byte sizes, limits, clock, boot time) and "
             "compared with a 15-line reference; every obligation's path tree is exhausted, so the verdict covers every input "
             "within the bound on the number of files. A readable history file without the ts key is a third kind of corrupt member.",
        note="Bounds: <=4 files for selectors, <=3 for run(), <=2 for files()/end-to-end (quick); 6/5/2 plus three 3-file patterns (thorough). Trusted: CrossHair's "
             "int/list/tuple models and z3; LazyJSON, os.remove, clock and boot time are stubs with the contracts listed in the evidence "
             "file. SQLite backend and float timestamps are outside the claim.",
        ref="DESIGN.md 4 C14",
    ),
    "C05": dict(
        text="Bounded model checking of the real chain machinery: ~620 (quick) / ~2000 (thorough) xonsh programs - every and/or/&&/|| "
             "shape up to 3 operands, natural-precedence chains of 4-6 operands, six capture forms, both operand flavours "
             "(valid / invalid Python text), @error_raise/@error_ignore placements, 2-stage pipelines - are compiled by the real parser "
             "and transformer and executed symbolically through the real subproc_* helpers, run_subproc, cmds_to_specs, "
             "CommandPipeline.end/_raise_subproc_error/__bool__/returncode and subproc_check_boolop, with every exit code an unbounded "
             "symbolic integer and both raise flags symbolic; the executed-command log and the raised CalledProcessError must equal the "
             "documented truth table on every path. Counterexamples are replayed in a real session with real callable aliases.",
        note="Bounds: the generated program list (printed in evidence), exit codes unbounded. Stubs: SubprocSpec.run returns a model "
             "process, pipeline fd/terminal/history plumbing is emptied (listed in evidence). Outside: process exit status of "
             "`xonsh -c`/scripts, $LAST_RETURN_CODE. One known finding ($[..]/$(..) operands judged by value) is listed in known_findings.jsonl.",
        ref="DESIGN.md 4 C05",
    ),
    "C11": dict(
        text="Bounded model checking of Env.swap/overlay/mask scoping on the real Env and InternalEnvironDict code: from every pre-state of "
             "a variable (global unset/set x thread-local absent/value/mask, registered-with-default or unregistered) nested scopes "
             "(depth 1-2 quick, 3 thorough) with every swap/overlay/mask/body-operation/exit-kind combination (exit by return, Exception, "
             "BaseException) must leave every read path ([], in, get, iteration, detype(), detype_all()) as a 20-line layer model "
             "predicts; a two-thread obligation interleaves a reader thread (independent or inheriting at spawn) with a scope in another "
             "thread at API-call granularity. The solver case-splits the finite-domain choices and decides each path; all trees exhaust. One scope is also entered through every calling form of swap (mapping, keyword, both for the same key) on an unregistered variable and on each member of a real sync= pair, comparing the partner's read paths too.",
        note="Finite-domain claim: the case split is over class representatives (values are opaque to the code). Thread obligation: "
             "the thread-local storage is replaced by per-logical-thread dicts, interleaving granularity is one Env call. "
             "$UPDATE_OS_ENVIRON mirroring and real preemption inside a call are outside. Five defects found here were repaired (fix: commits).",
        ref="DESIGN.md 4 C11",
    ),
    "C20": dict(
        text="One inductive step of every job-table operation (add_job, fg, bg, disown, jobs, get_next_task, pipeline registration) "
             "from an arbitrary consistent table, executed symbolically on the real jobs.py code: job-number sets, every MRU "
             "permutation, per-job alive/bg/stopped flags, every argument form, main thread and a worker thread with its own tables. "
             "After the step both structures must agree, dead jobs be purged, the documented job be selected, errors leave the table "
             "untouched and the worker's tables be restored. Because the pre-state is arbitrary, histories of any length are covered "
             "as long as the invariant (distinct numbers, MRU a permutation of them) holds - which each obligation re-establishes.",
        note="Bounds: <=3 jobs over numbers 1..5 (quick), <=4 over 1..6 (thorough). Process objects, pipeline.resume, _continue and "
             "print are stubs. Real concurrent access (alias threads, SIGHUP handler) is outside. One defect repaired (fix: commit).",
        ref="DESIGN.md 4 C20",
    ),
    "C16": dict(
        text="One inductive step of cd, pushd, popd, dirs (every argument form: none, directory spellings incl. '..', symlink, file, "
             "missing, unsearchable, -, +N/-N, -n, malformed) and the pushd;popd / with_pushd pair, executed symbolically on the real "
             "dirstack.py from an arbitrary valid state (stack of 0..3 entries, $PWD in step with the model cwd) over a model directory "
             "tree whose chdir resolves '..' physically like the kernel. After the step $PWD must name the model's cwd, $OLDPWD the "
             "previous one, failures leave everything unchanged and report an error, the stack obeys $DIRSTACK_SIZE and the documented "
             "rotation/removal rule ($PUSHD_MINUS aware).",
        note="Bounds: 5 places, 10 target spellings, N in 0..4, stack <=3, $DIRSTACK_SIZE 0..5. The os module seen by dirstack.py is a "
             "model file system (contract listed in evidence); BaseShell._fix_cwd, the path-literal cd() context manager and Windows UNC "
             "handling are outside. Two known findings are listed in known_findings.jsonl.",
        ref="DESIGN.md 4 C16",
    ),
    "C15": dict(
        text="Bounded model checking of alias resolution on the real Aliases.get/eval_alias and SubprocSpec.build code over symbolic alias "
             "graphs: every assignment of kinds (list, list with leading decorators, callable, return_command) and head names over a0..a3 "
             "plus a non-alias, so self loops, 2-/3-cycles, chains and diamonds all occur; the invoked name, own and user arguments vary. "
             "The result must equal an independently written iterative expander (each alias at most once, inner alias arguments before "
             "outer before user arguments, decorators in encounter order, last decorator wins), be identical for both definition orders, "
             "and never hit RecursionError; $__ALIAS_STACK blocks re-expansion. Each resolution is asked twice and must give the same answer (the table is only read); alias strings defined through Aliases.__setitem__ keep the user's arguments when and/or only occur inside punctuated words.",
        note="Finite-domain claim over the stated graph family (2-3 aliases quick, 3-4 thorough); argument tokens are opaque markers. "
             "String aliases / ExecAlias classification (regex, lexer) are outside; expand_path is the identity and no PATH search is done.",
        ref="DESIGN.md 4 C15",
    ),
    "C08": dict(
        text="Bounded model checking of command lookup over a model POSIX file system: locate_executable (execution's view) and "
             "CommandsCache.locate_binary / membership / completion listing are run on the real executables.py and commands_cache.py code "
             "for every layout of 3 $PATH directories x 2 names (absent, executable, non-executable, directory, broken link), a same-named "
             "file in the cwd, $PATH values with missing, duplicate, symlinked, relative and empty entries, and then histories of "
             "create / delete / chmod / replace / $PATH reverse, append, insert, pop / symlink re-pointing with all views re-checked "
             "after every step against a POSIX search reference computed on the current model state. The solver case-splits the "
             "finite-domain choices; every class is then executed on the real code. Directory mtimes of the model are epoch-sized floats one 4 ms tick apart, so tolerant or rounded comparisons cannot pass for equality.",
        note="Bounds: $PATH length <=3, histories <=2 steps (quick) / 3 (thorough), one name in histories. The os module and pathlib.Path "
             "seen by the two modules are a model FS whose contract (directory mtime changes iff an entry appears/disappears) is listed "
             "in evidence. PATHEXT, stable-directory caching and what execvp really runs are outside. One defect repaired, one known finding listed.",
        ref="DESIGN.md 4 C08",
    ),
    "C13": dict(
        text="Crash-point and fault analysis of every history-rewriting operation of the JSON backend (background flush, flush at exit, "
             "history delete, erasedups, stale-lock unlock during GC enumeration) on the real json.py / lazyjson.py code over a model file "
             "system with inodes: the step at which the process is killed is case-split, the number of buffered characters that had "
             "reached the disk is an unbounded symbolic integer decided by z3, and separately every single file-system call is made to "
             "fail (OSError, or a short os.write). Afterwards every history file must be exactly its complete previous or complete new "
             "version (hence loadable), never truncated or missing. Opening an existing file for reading is one of the fallible calls.",
        note="Bounds: the concrete initial files built at start-up (1-2 files, 1-3 commands), <=14 file-system steps per operation. The "
             "model's contract (truncate at open, buffered writes durable as any prefix until close returns, atomic replace, no fsync "
             "modelling) is listed in evidence. SQLite/WAL and signal-driven flush are outside. One defect repaired.",
        ref="DESIGN.md 4 C13",
    ),
    "C19": dict(
        text="Bounded model checking of the bytecode cache on the real codecache.py: the validity decision over real-valued source and "
             "cache modification times (z3 decides the comparison for all reals, so sub-second cases are included), run/edit-or-touch/run "
             "histories under all 16 switch settings with the edit time a symbolic offset from the cache write, -c code entries for "
             "equal/different code strings, every truncation length of a real cache entry and every single-bit flip in its version header "
             "and first payload bytes (neither may raise nor yield anything but the complete code object), and the cache-file renaming "
             "composed with an independently written decoder (left inverse => different scripts never share an entry).",
        note="Files, stat and open are in-memory with explicit mtimes; compile_code is replaced by a real compile() of a program that "
             "records which source ran; marshal stays real (each corruption case is concrete at the C boundary). md5 collisions, imphooks "
             "and bit flips deep in the marshal payload are outside. One defect repaired.",
        ref="DESIGN.md 4 C19",
    ),
    "C12": dict(
        text="Bounded model checking of the JSON history backend: (1) histories of append/flush operations (buffer sizes 1-3, five "
             "$HISTCONTROL settings, failing / duplicate / space-prefixed commands) on the real JsonHistory, JsonCommandField and flusher "
             "code with len, every index and negative index, slices, items() and the decoded file compared with a reference list after "
             "every operation; (2) commands containing multi-byte UTF-8, quotes, backslashes, newlines, U+2028 and control characters "
             "written through the real encoder into UTF-8 bytes and every value read back through the embedded index by byte offset; "
             "(3) the index offset arithmetic of lazyjson executed symbolically with every leaf's rendering a free symbolic string, so "
             "offsets/sizes are shown to address exactly the rendering for all rendering lengths in the bound. Histories include `clear`; a further obligation keeps background flushers pending (cooperative sequentialisation of the real queue/condition protocol) and reads through them.",
        note="Files are in-memory UTF-8 byte buffers behind a real TextIOWrapper; flusher threads run synchronously in creation order "
             "(the ticket queue that enforces this order is not verified). SQLite and real thread timing are outside.",
        ref="DESIGN.md 4 C12",
    ),
    "C10": dict(
        text="(a) integer/boolean cores of the converter pairs (int, $SHLVL, bool-or-int, bool, bool-or-none, int-or-none) executed "
             "symbolically; (b) 20 registered variables covering every converter triple with a numeric, boolean, enum, path or list core "
             "taken through a real parent Env -> detype() -> nested Env built from that mapping, with boundary-value pools incl. empty "
             "path entries in every position; (c) histories of 15 kinds of operations (equal-comparing typed/untyped assignments, list "
             "assignment, in-place mutation through a read and through a held reference, delete, swap / mask / overlay) on the real Env "
             "with the mapping a child would receive compared, after every step, with a recomputation from scratch and with the stored "
             "typed values. The solver case-splits the finite-domain choices; each class runs on the real code. The operation alphabet includes two nested overlays naming the same variables, an overlay mask, a caller editing the mapping it was handed, and the first read of a computed default.",
        note="Pools, not all values, for non-integer types (floats are IEEE at the C boundary; CrossHair reals are not). LS_COLORS, "
             "colour dicts, VarPattern, locale and prompt-toolkit setters and the real os.environ mirror are outside. Four known findings "
             "are listed in known_findings.jsonl.",
        ref="DESIGN.md 4 C10",
    ),
    "C07": dict(
        text="Redirect decoding and pipe wiring on the real specs.py code over the COMPLETE operator spelling table read from the tokenizer "
             "at run time (50 spellings): a z3 regex-inclusion query shows every string the tokenizer's redirect pattern can emit is "
             "decodable (translator validated against re.fullmatch on the tables), ordered-choice matching consumes every spelling whole, "
             "and bounded model checking of SubprocSpec.build / cmds_to_specs over every single redirect, every pair of redirects on one "
             "stage and every redirect on every stage of 2-3 stage pipelines (with and without trailing &) compares the resulting "
             "stdin/stdout/stderr slots, file modes, shared opens, pipe ends, sentinels and errors with a decoder written from the "
             "documentation: all spellings of an operator are equivalent, conflicts and pipe-redirects without a pipe are errors. Pipelines of 2..4 stages where one stage sends stdout to a file and stderr into the pipe (every spelling pair) must wire every other stage's stdout to its pipe.",
        note="safe_open and PipeChannel are models (no fds are created); the last stage's capture plumbing (_update_last_spec) and the "
             "alias-side handle resolution are not covered; bytes actually delivered and the grammar producing the tuples are outside.",
        ref="DESIGN.md 4 C07",
        technique="z3 regex language inclusion + bounded symbolic execution (CrossHair/z3) of the real decoding and wiring code",
    ),
    "C09": dict(
        text="Descriptor-ownership kernel of 'the session is left as found', on the real PipeChannel, SubprocSpec.close, cmds_to_specs "
             "(incl. its error branch and the capture pipes of the last stage) and CommandPipeline start-failure / end / close code over "
             "a model fd table with POSIX lowest-free recycling: every sequence of up to 5 channel operations interleaved with another "
             "owner allocating pipes must neither close a number twice nor touch a foreign descriptor nor leak; pipelines of 1-3 stages "
             "under four capture kinds with a fault at any stage (conflicting redirects, pipe-redirect without pipe, unthreadable alias, "
             "spec construction raising, process start raising OSError or KeyboardInterrupt) must leave the fd table as before; and a "
             "failed spawn of a captured command (7 exception classes) must restore the four signal handlers. After pipelines of 1..3 callable-alias or process stages, run through the real CommandPipeline end path with the real SIGINT save/restore methods of ProcProxyThread on model stage objects, a Ctrl-C must reach the shell's own handler.",
        note="Partial claim: children, helper threads, terminal ownership, sys.std*, cwd and handlers of successfully started stages are "
             "OS state outside this model. Processes are model objects; descriptors freed only by garbage collection count as leaked. "
             "One defect repaired.",
        ref="DESIGN.md 4 C09",
    ),
    "C04": dict(
        text="Runtime half of argument delivery: the code objects the real parser and transformer emit for `cmd @(X)`, `cmd @(X) @(Y)`, "
             "`cmd a @(X) b`, `cmd @(XS) z`, `cmd pre@(X)post`, `cmd f\"{X}\"` are executed symbolically with X, Y symbolic strings (any "
             "code points, 1-3 characters), lists/tuples of them, ints, bytes and callables through the real list_of_strs_or_callables, "
             "ensure_str_or_callable, outer-product and expand_path code; the argv handed to run_subproc must be verbatim, one argument "
             "per string/element, in position, and glob must never be called on injected content. Finite pools cover the documented "
             "$VAR / ~ expansion of 27 literal shapes (raw and non-raw), @$() re-splitting of 11 outputs and macro ! bodies. At the hand-off stage SubprocSpec.build must keep an argument word equal to any name of the session's real alias table (decorator aliases included) or an operator word, at every position, for a callable alias and for a program.",
        note="Partial claim (runtime hand-off): lexing/quoting of literal text and the alias-thread vs Popen delivery paths are outside. "
             "run_subproc and XSH.glob are recorders. One known finding (concatenated injection) is listed.",
        ref="DESIGN.md 4 C04",
    ),
    "C02": dict(
        text="The scope model of the context-aware transformer, checked on the real three-phase Execer.parse with CPython itself as the "
             "binding oracle: programs are generated from 30 binder forms (assign, tuple/star/ann/aug assign, import forms, def, class, "
             "for, with-as, except-as, walrus, comprehension, lambda, parameters, global, match capture, inner-scope del, branches, a "
             "preceding command ...) at module / function / class / nested-function depth, an optional del, and one of 10 command-looking "
             "use statements; the solver case-splits the form and the full aliasing pattern of five names (session-bound, unbound, "
             "builtin, two fresh). Whenever CPython evaluates the use statement without NameError, xonsh must leave that statement's "
             "tree exactly as CPython parses it; after a same-scope del of a once-bound name the line must be wrapped. A second obligation "
             "checks that inputs rejected with SyntaxError ran nothing. A session obligation drives two successive inputs through Execer.compile with a name bound in the session's builtins, globals or locals before, between, or removed between them: the second input stays Python exactly when the name is bound at that moment.",
        note="Oracle direction only bound => untouched (xonsh judges binding lexically). Skeletons whose phase-1 parse already differs "
             "from CPython are dropped (C01's concern; none at present). The text of an actual wrap is C03's subject. Two known findings "
             "(walrus statement, match capture) are listed.",
        ref="DESIGN.md 4 C02",
    ),
    "C03": dict(
        text="(a) Termination of the implicit-subprocess recovery loop: the real _parse_ctx_free/_try_parse with the real lexer, "
             "subproc_toks, find_next_break and logical-line helpers runs against an adversarial parser whose first two answers (success, "
             "error without location, error at a symbolic line/column) are symbolic integers decided by z3 and which afterwards always "
             "reports a fresh location, so only the retry counter can stop the loop: it must return or raise SyntaxError within the cap, "
             "never another exception. (b) get_logical_line / strip_continuation_comments / _ends_with_line_continuation over symbolic "
             "short lines of quotes, backslashes, '#', ';'. (c) bare == explicit: a generated family of command segments alone or chained "
             "by && || and or, in six statement positions, must run exactly the commands of the hand-wrapped ![...] program. Further segments end in an operator character, hold a break word inside a substitution or start with a $VAR path word; one-line chains of 3..16 commands are compared as well.",
        note="Partial claim: (a) is for six seed inputs and two symbolic answers; (c) is a finite generated family, not the whole "
             "subprocess grammar (that needs the lexer and LALR parser inside the solver - same wall as C01). Three known findings listed. "
             "A few (a) partitions do not exhaust within the quick budget and are reported inconclusive.",
        ref="DESIGN.md 4 C03",
    ),
    "C17": dict(
        text="Formatter kernel and families on the real formatter and xonsh's own parser: _source_slice over every symbolic token span "
             "(four integers) of three sources must return exactly the text between the positions; triple-quoted literals with every body "
             "of up to 3+2 symbols over {a, space, tab, backslash, quote} in three syntactic positions, every ordered pair of 43 statements "
             "(Python, subprocess lines, comments, continuations, tab/2/4/8-space indentation, f-strings) under three separators, go through "
             "format_source and are parsed before and after with Execer.parse: same tree, second pass a no-op, exactly one final newline, "
             "FormatError instead of rewriting; the CLI rewrites ASCII and multi-byte files in place to exactly format_source's output. The statement pool holds function and alias macros; fifteen further single statements (operator characters inside subprocess words, f-string specs, nested and block macros, a continued command) are formatted alone.",
        note="Partial claim: generated families, not all programs (whole-program equivalence on symbolic text needs tokenizer and parser "
             "inside the solver - same wall as C01). One known finding (the defect the property text names) is listed.",
        ref="DESIGN.md 4 C17",
    ),
    "C18": dict(
        text="Path-completion quoting checked by executing its output: for every file name of 1-3 symbols over a pool with one "
             "representative per character class the quoting code distinguishes (plain, blank, both quote kinds, backslash, $, ~, !, *, "
             "#, newline, tab, -, non-ASCII) and five opening-quote styles, the text the real _quote_paths inserts is run by the real "
             "Execer as `cmd <text>` with a recording run_subproc and must deliver exactly [name]; the completion-context analyser is "
             "run on every command line of up to 3 (quick) / 4 (thorough) symbols at every cursor position and on lines ending in blanks "
             "after an unclosed quote: no exception, reported prefix and suffix equal the text around the cursor. The solver case-splits "
             "the finite-domain choices; each class runs on the real code. A sibling candidate that needs a raw string is quoted together with the name and each must still read back as its own file; the analyser alphabet has backslash and newline and is also used without a leading command word.",
        note="Finite-domain claim over class representatives. The bash-completion bridge and Completer.complete_line splicing are "
             "outside. Three known findings (two of them named in the property text) are listed.",
        ref="DESIGN.md 4 C18",
    ),
}

NA = {
    "C01": "oracle is CPython's C parser and the xonsh side is an 1802-state LALR automaton with 2617 resolved conflicts: neither is encodable for an SMT solver at a useful bound (DESIGN.md 4 C01)",
    "C06": "property quantifies over real thread schedules across kernel pipes; CrossHair models neither threads nor fds, and the one pure kernel (tee_stdout byte shaping) does not exhaust at 4 bytes (DESIGN.md 4 C06)",
}
PENDING = "check not built yet in this round (solver-based harness planned in DESIGN.md section 4)"

ALL = [f"C{i:02d}" for i in range(1, 21)]


def main():
    checks = []
    for pid in ALL:
        if pid not in CHECKS:
            continue
        c = CHECKS[pid]
        checks.append(dict(
            property_id=pid,
            quick_cmd=f"./check {pid} --tier quick",
            thorough_cmd=f"./check {pid} --tier thorough",
            evidence_file=f"/verif/evidence/{pid}.json",
            replay_cmd_template=f"./check {pid} --replay {{path}}",
            engine="crosshair-z3",
            level_claimed=dict(category="model_checking", text=c["text"], design_ref=c["ref"]),
            level_note=c["note"],
            technique=c.get("technique", TECH),
        ))
    na = []
    for pid in ALL:
        if pid in CHECKS:
            continue
        na.append(dict(property_id=pid, reason=NA.get(pid, PENDING)))
    m = dict(
        version=1,
        setup_cmd="bash /verif/setup.sh",
        hooks=dict(
            guard="XONSH_XONSH_VERIF",
            enable="no source hooks are needed: every check imports /repo's working tree directly and installs its stubs from outside "
                   "by attribute patching inside the check process (XONSH_XONSH_VERIF=1 is exported by ./check but read by nothing in /repo)",
            baseline_off_cmd="cd /repo && /venv/bin/python -m pytest -ra -q -p no:cacheprovider --timeout=900 --continue-on-collection-errors",
            source_commits=[],
            add_only=True,
        ),
        engines=[
            dict(name="crosshair-z3", path="/verif/vf", serves_properties=sorted(CHECKS),
                 kind_free_text="CrossHair symbolic execution of the imported /repo modules, z3 as the deciding solver; "
                                "vf/main.py orchestrates partitions, replays counterexamples and writes evidence"),
        ],
        checks=checks,
        not_applicable=na,
        notes="All checks are solver-based (bounded symbolic execution of the real code). exit 0 = held on everything explored "
              "(inconclusive partitions are listed in the evidence file, never counted as success); exit 1 + VIOLATION line = reproduced "
              "counterexample not listed in known_findings.jsonl; exit 3 = harness error. Fix commits in /repo: see known_findings.jsonl.",
    )
    with open(os.path.join(HERE, "MANIFEST.json"), "w") as f:
        json.dump(m, f, indent=1)
    print("wrote MANIFEST.json:", len(checks), "checks,", len(na), "not applicable")


if __name__ == "__main__":
    main()
