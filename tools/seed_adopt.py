#!/usr/bin/env python3
"""usage: seed_adopt.py <ID> <m> <detected_by> [<strengthened note>]
Copies /tmp/seed/<ID>/<m> (patch.diff demo.py notes.md verify.txt) into /verif/seeded/<ID>/<m>/ and writes meta.json."""
import json, os, shutil, sys

pid, m, det = sys.argv[1:4]
note = sys.argv[4] if len(sys.argv) > 4 else ""
src, dst = f"/tmp/seed/{pid}/{m}", f"/verif/seeded/{pid}/{m}"
os.makedirs(dst, exist_ok=True)
for f in ("patch.diff", "demo.py", "notes.md", "verify.txt"):
    if os.path.exists(os.path.join(src, f)):
        shutil.copy(os.path.join(src, f), os.path.join(dst, f))
title = next(json.loads(l)["title"] for l in open("/verif/properties.jsonl") if json.loads(l)["id"] == pid)
ver = open(os.path.join(dst, "verify.txt")).read().splitlines() if os.path.exists(os.path.join(dst, "verify.txt")) else []
meta = {
    "property": pid, "property_title": title, "seed": m,
    "breaks": "see notes.md (written by the independent sub-agent that produced the change; it was given only the property text)",
    "needs_to_manifest": "see notes.md",
    "confirmed": {"how": "tools/seed_verify.sh in a scratch worktree of /repo: demo.py exit 0 on the clean tree and exit 1 with the patch; "
                         "full pytest suite has no failure beyond the baseline's always-failing/flaky set", "result": ver},
    "check_run": f"patch applied in a scratch worktree, `PYTHONPATH=<worktree> VERIF_REPO=<worktree> ./check {pid} --no-evidence` -> exit 1 with VIOLATION lines "
                 f"(equivalent to tools/seed_run.sh {pid} /verif/seeded/{pid}/{m}, which patches /repo itself)",
    "detected_by_obligation": det, "detected": True,
}
if note:
    meta["strengthening"] = note
json.dump(meta, open(os.path.join(dst, "meta.json"), "w"), indent=1)
print("adopted", dst)
