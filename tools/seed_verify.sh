#!/bin/bash
# usage: seed_verify.sh <seed-dir> [<seed-dir> ...]
# Confirms, in a scratch worktree of /repo HEAD: patch applies, demo fails with it and passes without,
# and the full test suite has no failures beyond the baseline's always-failing set.
set -u
WT=/tmp/wt/seedverify_$$
git -C /repo worktree add --detach "$WT" HEAD -q || exit 2
BASE_FAIL='test_bash_completer|test_virtualenv_activator|test_argv0|test_gitstatus|test_vc.py::test_git_dirty_working_directory_includes_untracked|test_completer_empty_llm|test_forwarding_sighup|test_on_postcommand_waiting|test_callable_alias_fd_leaking'
for SD in "$@"; do
  OUT="$SD/verify.txt"; : > "$OUT"
  cd "$WT"; git checkout -q -- .; git clean -fdq
  echo "== $SD" | tee -a "$OUT"
  PYTHONDONTWRITEBYTECODE=1 /venv/bin/python "$SD/demo.py" > "$SD/demo_clean.log" 2>&1; echo "demo on clean tree: exit $?" | tee -a "$OUT"
  if ! git apply "$SD/patch.diff"; then echo "PATCH DOES NOT APPLY" | tee -a "$OUT"; continue; fi
  PYTHONDONTWRITEBYTECODE=1 /venv/bin/python "$SD/demo.py" > "$SD/demo_patched.log" 2>&1; echo "demo with patch: exit $?" | tee -a "$OUT"
  PYTHONDONTWRITEBYTECODE=1 /venv/bin/python -m pytest -q -p no:cacheprovider --timeout=900 -n 8 --continue-on-collection-errors tests > "$SD/suite.log" 2>&1
  tail -1 "$SD/suite.log" | tee -a "$OUT"
  grep -E "^(FAILED|ERROR)" "$SD/suite.log" | grep -Ev "$BASE_FAIL" > "$SD/suite_new_failures.txt"
  echo "failures beyond baseline: $(wc -l < "$SD/suite_new_failures.txt")" | tee -a "$OUT"
  cat "$SD/suite_new_failures.txt" | head -10 | tee -a "$OUT"
done
cd /; git -C /repo worktree remove --force "$WT"
